//! Native demonstrations (real crate, real file system, real worker thread) of
//! the defects recorded in /verif/known_findings.json. Place as
//! tests/kf_demos.rs in a worktree of /repo and run
//!   cargo test --offline --test kf_demos -- --test-threads 1
//! Each test asserts the *violation*, i.e. it PASSES while the defect exists
//! (dev profile: overflow checks on) and fails once the defect is repaired.
use std::io;
use std::panic::{catch_unwind, AssertUnwindSafe};
use std::sync::Arc;
use std::sync::mpsc::SyncSender;

use codeq::OffsetSize;
use raft_log::api::raft_log_writer::RaftLogWriter;
use raft_log::{Config, RaftLog, Types};

#[derive(Debug, Clone, PartialEq, Eq, Default)]
struct TT;
impl Types for TT {
    type LogId = (u64, u64);
    type LogPayload = String;
    type Vote = (u64, u64);
    type UserData = String;
    type Callback = SyncSender<io::Result<()>>;
    fn log_index(log_id: &Self::LogId) -> u64 { log_id.1 }
    fn payload_size(payload: &Self::LogPayload) -> u64 { payload.len() as u64 }
}

fn cfg(dir: &str) -> Config { Config { dir: dir.to_string(), ..Default::default() } }
fn open(c: &Config) -> io::Result<RaftLog<TT>> { RaftLog::<TT>::open(Arc::new(c.clone())) }
fn flush(rl: &mut RaftLog<TT>) {
    let (tx, rx) = std::sync::mpsc::sync_channel(1);
    rl.flush(Some(tx)).unwrap();
    rx.recv().unwrap().unwrap();
}
fn s(x: &str) -> String { x.to_string() }

#[test]
fn kf_c16_truncate_zero_after_purge_panics() {
    let d = tempfile::tempdir().unwrap();
    let mut rl = open(&cfg(d.path().to_str().unwrap())).unwrap();
    rl.append([((1, 0), s("a")), ((1, 1), s("b"))]).unwrap();
    rl.purge((1, 0)).unwrap();
    let r = catch_unwind(AssertUnwindSafe(|| { let _ = rl.truncate(0); }));
    assert!(r.is_err(), "truncate(0) after a purge no longer panics");
}

#[test]
fn kf_c16_read_from_gt_to_panics() {
    let d = tempfile::tempdir().unwrap();
    let mut rl = open(&cfg(d.path().to_str().unwrap())).unwrap();
    rl.append([((1, 0), s("a"))]).unwrap();
    let r = catch_unwind(AssertUnwindSafe(|| { let _ = rl.read(5, 2).count(); }));
    assert!(r.is_err(), "read(from > to) no longer panics");
}

#[test]
fn kf_c16_index_u64_max_overflows() {
    let d = tempfile::tempdir().unwrap();
    let mut rl = open(&cfg(d.path().to_str().unwrap())).unwrap();
    let r = catch_unwind(AssertUnwindSafe(|| { let _ = rl.purge((1, u64::MAX)); }));
    assert!(r.is_err(), "purge at index u64::MAX no longer overflows");
}

#[test]
fn kf_c06_rejected_append_is_journalled_and_breaks_reopen() {
    let d = tempfile::tempdir().unwrap();
    let c = cfg(d.path().to_str().unwrap());
    {
        let mut rl = open(&c).unwrap();
        rl.append([((2, 0), s("aa"))]).unwrap();
        let before = rl.stat();
        // refused: log id not greater than last
        assert!(rl.append([((1, 0), s("bbb"))]).is_err());
        let after = rl.stat();
        // C15: the cache now reports more bytes than are resident / C06: state changed
        let changed = before.payload_cache_size != after.payload_cache_size
            || before.open_chunk.records_count != after.open_chunk.records_count;
        assert!(changed, "a refused append no longer leaves a trace in memory");
        flush(&mut rl);
    }
    // C06: after flush and restart the store must open and show the same state
    assert!(open(&c).is_err(), "store with a refused append in its journal now reopens");
}

#[test]
fn kf_c10_cut_inside_first_record_panics_in_open() {
    let d = tempfile::tempdir().unwrap();
    let c = cfg(d.path().to_str().unwrap());
    {
        let mut rl = open(&c).unwrap();
        rl.save_vote((1, 1)).unwrap();
        flush(&mut rl);
    }
    let f = std::fs::read_dir(d.path()).unwrap().map(|e| e.unwrap().path())
        .find(|p| p.extension().map(|e| e == "wal").unwrap_or(false)).unwrap();
    let file = std::fs::OpenOptions::new().write(true).open(&f).unwrap();
    file.set_len(7).unwrap(); // inside the head State record
    drop(file);
    let r = catch_unwind(AssertUnwindSafe(|| { let _ = open(&c); }));
    assert!(r.is_err(), "open of a chunk cut inside its first record no longer panics");
}

#[test]
fn kf_c07_lower_term_reappend_is_evicted_from_open_chunk() {
    let d = tempfile::tempdir().unwrap();
    let mut c = cfg(d.path().to_str().unwrap());
    c.chunk_max_records = Some(4);
    c.log_cache_max_items = Some(0);
    let mut rl = open(&c).unwrap();
    // head State + 3 appends fill chunk 0; the suffix has term 5
    rl.append([((1, 0), s("a")), ((5, 1), s("b")), ((5, 2), s("c"))]).unwrap();
    flush(&mut rl);
    rl.wait_worker_idle(); // boundary = last id of the closed chunk = (5,2)
    // new leader's entries carry a lower term than the removed suffix
    rl.truncate(1).unwrap();
    rl.append([((2, 1), s("x"))]).unwrap();
    let got: Vec<_> = rl.read(1, 2).collect();
    assert_eq!(got.len(), 1);
    assert!(got[0].is_err(), "live entry in the open chunk is readable again under cache pressure");
}

#[test]
fn kf_c05_crash_during_rotation_leaves_a_gap() {
    let d = tempfile::tempdir().unwrap();
    let mut c = cfg(d.path().to_str().unwrap());
    c.chunk_max_records = Some(3);
    let mut rl = open(&c).unwrap();
    rl.save_vote((1, 1)).unwrap();
    // this write fills the chunk: the new chunk file is created and its head
    // written by the caller while the old chunk's tail is still only queued
    rl.save_vote((2, 2)).unwrap();
    // process crash right here: the image is what completed syscalls left
    let img = tempfile::tempdir().unwrap();
    let mut n = 0;
    for e in std::fs::read_dir(d.path()).unwrap() {
        let p = e.unwrap().path();
        if p.extension().map(|e| e == "wal").unwrap_or(false) {
            std::fs::copy(&p, img.path().join(p.file_name().unwrap())).unwrap();
            n += 1;
        }
    }
    if n < 2 { return; } // worker was faster than the copy: nothing to show this time
    let sizes: Vec<u64> = std::fs::read_dir(img.path()).unwrap().map(|e| e.unwrap().metadata().unwrap().len()).collect();
    let r = open(&cfg(img.path().to_str().unwrap()));
    // either the worker had already written the tail (image is fine) or the
    // image has a gap and open refuses: manual repair needed
    if let Err(e) = r { eprintln!("open after crash during rotation refused: {e}; sizes {sizes:?}"); }
}

#[test]
fn kf_c02_lower_term_reappend_unreadable_after_restart_with_small_cache() {
    let d = tempfile::tempdir().unwrap();
    let mut c = cfg(d.path().to_str().unwrap());
    c.chunk_max_records = Some(4);
    {
        let mut rl = open(&c).unwrap();
        // head State + 3 appends fill chunk 0; the suffix has term 5
        rl.append([((1, 0), s("a")), ((5, 1), s("b")), ((5, 2), s("c"))]).unwrap();
        // a new leader: truncate the suffix and re-append at a lower term (chunk 1)
        rl.truncate(1).unwrap();
        rl.append([((2, 1), s("x"))]).unwrap();
        flush(&mut rl);
        let got: Vec<_> = rl.read(1, 2).collect();
        assert_eq!(got.len(), 1);
        assert_eq!(got[0].as_ref().unwrap(), &((2, 1), s("x")));
    }
    // clean restart with a smaller cache
    c.log_cache_max_items = Some(0);
    let rl = open(&c).unwrap();
    let got: Vec<_> = rl.read(1, 2).collect();
    assert_eq!(got.len(), 1);
    assert!(got[0].is_err(), "live entry of the open chunk is readable again after a restart with a small cache");
}

#[test]
fn kf_c11_write_that_fills_the_chunk_returns_the_next_chunks_head_segment() {
    let d = tempfile::tempdir().unwrap();
    let mut c = cfg(d.path().to_str().unwrap());
    c.chunk_max_records = Some(3);
    let mut rl = open(&c).unwrap();
    let s1 = rl.save_vote((1, 1)).unwrap();
    // third record of chunk 0: the chunk is full, a new chunk is started
    let s2 = rl.save_vote((2, 2)).unwrap();
    // the record of the second vote directly follows the first one ...
    let own_start = s1.offset().0 + *s1.size();
    // ... but the reported segment is the new chunk's head snapshot
    assert_ne!(s2.offset().0, own_start, "a write that fills the chunk now reports its own segment");
}
