#!/usr/bin/env python3
"""Build a scratch copy of /repo's working tree with the Kani overlay applied.

No function body of raft-log is edited: the overlay (a) appends cfg(kani)
module declarations, (b) substitutes two imports (BTreeMap, mpsc) by
environment stand-ins, (c) adds crc32fast as a direct dependency so that a stub
can name it.  See DESIGN.md §2.
"""
import os, re, shutil, subprocess, sys, glob

VERIF = os.path.dirname(os.path.dirname(os.path.abspath(__file__)))
REPO = os.environ.get("VERIF_REPO", "/repo")

class OverlayError(Exception):
    pass

BTREE_FILES = [
    "src/raft_log/raft_log.rs",
    "src/raft_log/wal/mod.rs",
    "src/raft_log/state_machine/mod.rs",
    "src/raft_log/state_machine/payload_cache.rs",
    "src/raft_log/dump_raft_log.rs",
]
CHAN_FILES = [
    "src/raft_log/wal/mod.rs",
    "src/raft_log/wal/flush_request.rs",
    "src/raft_log/wal/flush_worker.rs",
]

def parse_harness_files():
    """Return list of dicts {file, anchor, harnesses:[{name,prop,tier,timeout,...}]}"""
    out = []
    for f in sorted(glob.glob(os.path.join(VERIF, "kani/harness/*.rs"))):
        txt = open(f).read()
        m = re.search(r"^// @anchor (\S+)", txt, re.M)
        anchor = m.group(1) if m else "src/lib.rs"
        hs = []
        for m in re.finditer(r"^// @harness (.*)$", txt, re.M):
            kv = dict(x.split("=", 1) for x in m.group(1).split())
            kv.setdefault("tier", "quick")
            kv.setdefault("timeout", "600")
            hs.append(kv)
        out.append({"file": f, "anchor": anchor, "harnesses": hs,
                    "mod": "kani_h_" + os.path.basename(f)[:-3]})
    return out

def build_scratch(dst, chan=True, btree=True):
    src_dir = os.path.join(dst, "repo")
    if os.path.exists(src_dir):
        shutil.rmtree(src_dir)
    os.makedirs(dst, exist_ok=True)
    subprocess.check_call(["rsync", "-a", "--exclude", "target", "--exclude", ".git",
                           REPO + "/", src_dir + "/"])
    # support + harness sources are copied, so the scratch tree is self-contained
    shutil.copytree(os.path.join(VERIF, "kani/support"), os.path.join(src_dir, "src/kani_support"))
    hdir = os.path.join(src_dir, "kani_h")
    shutil.copytree(os.path.join(VERIF, "kani/harness"), hdir)

    def edit(rel, fn):
        p = os.path.join(src_dir, rel)
        if not os.path.exists(p):
            raise OverlayError(f"overlay does not apply: {rel} missing")
        s = open(p).read()
        s2 = fn(s)
        open(p, "w").write(s2)

    if btree:
        for rel in BTREE_FILES:
            def sub(s, rel=rel):
                s2, n = re.subn(r"\bstd::collections::BTreeMap\b",
                                "crate::kani_support::slotmap::BTreeMap", s)
                if n < 1:
                    raise OverlayError(f"overlay does not apply: no BTreeMap import in {rel}")
                return s2
            edit(rel, sub)
    if chan:
        for rel in CHAN_FILES:
            def sub(s, rel=rel):
                s2, n = re.subn(r"\bstd::sync::mpsc::", "crate::kani_support::ghost_chan::", s)
                if n < 1:
                    raise OverlayError(f"overlay does not apply: no mpsc use in {rel}")
                return s2
            edit(rel, sub)

    # std BufReader -> pass-through reader (see ghost_fs::GhostBufReader)
    def bufr(s):
        s2, n = re.subn(r"\bio::BufReader::with_capacity\(", "crate::kani_support::ghost_fs::GhostBufReader::with_capacity(", s)
        if n != 1:
            raise OverlayError("overlay does not apply: io::BufReader::with_capacity not found exactly once in src/chunk/mod.rs")
        return s2
    edit("src/chunk/mod.rs", bufr)

    # module declarations
    files = parse_harness_files()
    by_anchor = {}
    for h in files:
        by_anchor.setdefault(h["anchor"], []).append(h)
    for anchor, hs in by_anchor.items():
        def app(s, hs=hs):
            for h in hs:
                p = os.path.join(hdir, os.path.basename(h["file"]))
                s += f'\n#[cfg(kani)]\n#[path = "{p}"]\npub(crate) mod {h["mod"]};\n'
            return s
        edit(anchor, app)
    def lib(s):
        return '#![cfg_attr(kani, recursion_limit = "1024")]\n#![cfg_attr(kani, feature(core_io_internals, core_io))]\n' + s + "\n#[cfg(kani)]\npub(crate) mod kani_support;\n"
    edit("src/lib.rs", lib)

    def cargo(s):
        if not re.search(r"^\[dependencies\]", s, re.M):
            raise OverlayError("overlay does not apply: no [dependencies] in Cargo.toml")
        s = re.sub(r"^\[dependencies\]\n", '[dependencies]\ncrc32fast = "1.5.1"\n', s, count=1, flags=re.M)
        s += '\n[lints.rust]\nunexpected_cfgs = { level = "allow", check-cfg = ["cfg(kani)"] }\n'
        return s
    edit("Cargo.toml", cargo)
    # the repo pins a toolchain; kani uses its own
    rt = os.path.join(src_dir, "rust-toolchain")
    if os.path.exists(rt):
        os.remove(rt)
    return src_dir, files

if __name__ == "__main__":
    d, files = build_scratch(sys.argv[1])
    print(d)
    for f in files:
        print(f["mod"], f["anchor"], [h["name"] for h in f["harnesses"]])
