#!/usr/bin/env python3
"""Run the quick check of each seeded change's property with the change applied
to /repo (git apply / git checkout -- .), record exit code and VIOLATION lines.
usage: detect_seeds.py [id ...]   (default: all of seeded/C*)"""
import glob, json, os, re, subprocess, sys, time
V = os.path.dirname(os.path.dirname(os.path.abspath(__file__)))
ids = sys.argv[1:] or sorted(os.path.basename(d.rstrip("/")) for d in glob.glob(os.path.join(V, "seeded", "C*/")))
out = {}
res_p = os.path.join(V, "seeded", "detection.json")
if os.path.exists(res_p):
    out = json.load(open(res_p))
for sid in ids:
    d = os.path.join(V, "seeded", sid)
    prop = json.load(open(os.path.join(d, "meta.json")))["property"]
    assert subprocess.run(["git", "-C", "/repo", "status", "--porcelain", "-uno"], stdout=subprocess.PIPE, text=True).stdout.strip() == "", "/repo dirty"
    subprocess.check_call(["git", "-C", "/repo", "apply", os.path.join(d, "patch.diff")])
    t0 = time.time()
    try:
        p = subprocess.run([os.path.join(V, "bin", "check"), prop, "--tier", "quick", "--jobs", "7", "--no-replay"],
                           cwd=V, stdout=subprocess.PIPE, stderr=subprocess.STDOUT, text=True, timeout=7200)
        rc, txt = p.returncode, p.stdout
    finally:
        subprocess.check_call(["git", "-C", "/repo", "checkout", "--", "."])
    viol = re.findall(r"failed check in (\S+): (.*)", txt)
    inconc = re.findall(r"^INCONCLUSIVE: (.*)$", txt, re.M)
    out[sid] = {"property": prop, "exit": rc, "detected": rc == 1, "failed_checks": viol[:6], "inconclusive": inconc[:6], "wall_s": round(time.time() - t0)}
    print(sid, out[sid], flush=True)
    json.dump(out, open(res_p, "w"), indent=1)
# the evidence files now describe mutated trees: they must be regenerated on the unchanged tree
print("NOTE: re-run the checks on the unchanged tree to regenerate evidence/")
