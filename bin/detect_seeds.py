#!/usr/bin/env python3
"""Detection matrix: for each seeded change, run the quick check of its
property on a tree that carries the change, record exit code and failed checks.
The tree is a scratch git worktree of /repo HEAD with the patch applied
(VERIF_REPO=<worktree>), so several seeds can run in parallel and /repo stays
untouched; `--in-place` instead applies the patch to /repo itself and undoes
it afterwards (git apply / git checkout -- .), one seed at a time.
usage: detect_seeds.py [--in-place] [--par N] [id ...]"""
import glob, json, os, re, subprocess, sys, time
from concurrent.futures import ThreadPoolExecutor
V = os.path.dirname(os.path.dirname(os.path.abspath(__file__)))
args = sys.argv[1:]
in_place = "--in-place" in args
par = 3
if "--par" in args:
    par = int(args[args.index("--par") + 1])
ids = [a for a in args if re.match(r"^C\d+-", a)] or sorted(os.path.basename(d.rstrip("/")) for d in glob.glob(os.path.join(V, "seeded", "C*/")))
res_p = os.path.join(V, "seeded", "detection.json")
out = json.load(open(res_p)) if os.path.exists(res_p) else {}

def one(sid):
    d = os.path.join(V, "seeded", sid)
    prop = json.load(open(os.path.join(d, "meta.json")))["property"]
    env = dict(os.environ)
    wt = None
    if in_place:
        subprocess.check_call(["git", "-C", "/repo", "apply", os.path.join(d, "patch.diff")])
    else:
        wt = f"/tmp/seedrepo-{sid}"
        subprocess.run(["git", "-C", "/repo", "worktree", "remove", "--force", wt], stderr=subprocess.DEVNULL)
        subprocess.check_call(["git", "-C", "/repo", "worktree", "add", "--detach", wt, "HEAD"], stdout=subprocess.DEVNULL, stderr=subprocess.DEVNULL)
        subprocess.check_call(["git", "-C", wt, "apply", os.path.join(d, "patch.diff")])
        env["VERIF_REPO"] = wt
    t0 = time.time()
    try:
        p = subprocess.run([os.path.join(V, "bin", "check"), prop, "--tier", "quick", "--jobs", "5", "--no-replay"],
                           cwd=V, env=env, stdout=subprocess.PIPE, stderr=subprocess.STDOUT, text=True, timeout=10800)
        rc, txt = p.returncode, p.stdout
    finally:
        if in_place:
            subprocess.check_call(["git", "-C", "/repo", "checkout", "--", "."])
        else:
            subprocess.run(["git", "-C", "/repo", "worktree", "remove", "--force", wt])
    viol = re.findall(r"failed check in (\S+): (.*)", txt)
    inconc = re.findall(r"^INCONCLUSIVE: (.*)$", txt, re.M)
    r = {"property": prop, "exit": rc, "detected": rc == 1, "failed_checks": viol[:8], "inconclusive": inconc[:6],
         "wall_s": round(time.time() - t0), "repo_head": subprocess.check_output(["git", "-C", "/repo", "rev-parse", "--short", "HEAD"], text=True).strip(),
         "verif_head": subprocess.check_output(["git", "-C", V, "rev-parse", "--short", "HEAD"], text=True).strip()}
    if rc not in (0, 1):
        r["output_tail"] = txt[-1500:]
    print(sid, json.dumps(r), flush=True)
    return sid, r

with ThreadPoolExecutor(max_workers=1 if in_place else par) as ex:
    for sid, r in ex.map(one, ids):
        out[sid] = r
        json.dump(out, open(res_p, "w"), indent=1, sort_keys=True)
print("NOTE: evidence/ now describes mutated trees: re-run the checks on the unchanged tree")
