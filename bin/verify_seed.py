#!/usr/bin/env python3
"""Confirm a seeded change produced by a sub-agent: (a) its demonstration passes
on the unchanged tree, (b) with the change applied the existing suite still
passes and the demonstration fails. Keeps it as /verif/seeded/<id>/ if so.
usage: verify_seed.py <PROP> <m1|m2> [srcdir]"""
import json, os, re, shutil, subprocess, sys
prop, m = sys.argv[1], sys.argv[2]
src = sys.argv[3] if len(sys.argv) > 3 else f"/tmp/mut-{prop}/OUT"
sid = f"{prop}-{m}"
wt = f"/tmp/vs-{sid}"
env = dict(os.environ, CARGO_NET_OFFLINE="true", CARGO_TARGET_DIR="/var/tmp/vs-target")
def sh(cmd, cwd=wt, timeout=1800):
    p = subprocess.run(cmd, shell=True, cwd=cwd, env=env, stdout=subprocess.PIPE, stderr=subprocess.STDOUT, text=True, timeout=timeout)
    return p.returncode, p.stdout
md = open(f"{src}/{m}.md").read()
pm = re.search(r"`((?:tests|src/tests)/[\w/]+\.rs)`", md)
place = pm.group(1)
subprocess.run(f"git -C /repo worktree remove --force {wt}", shell=True, stderr=subprocess.DEVNULL)
subprocess.check_call(f"git -C /repo worktree add --detach {wt} HEAD", shell=True, stdout=subprocess.DEVNULL, stderr=subprocess.DEVNULL)
res = {"id": sid, "property": prop, "demo_place": place}
try:
    shutil.copy(f"{src}/{m}_demo.rs", os.path.join(wt, place))
    if place.startswith("src/tests/"):
        mod = os.path.basename(place)[:-3]
        with open(os.path.join(wt, "src/tests/mod.rs"), "a") as f:
            f.write(f"\nmod {mod};\n")
        demo_cmd = f"cargo test --offline --lib {mod}"
    else:
        demo_cmd = f"cargo test --offline --test {os.path.basename(place)[:-3]}"
    rc0, out0 = sh(demo_cmd)
    res["demo_passes_without_change"] = (rc0 == 0)
    rc, out = sh(f"git apply {src}/{m}.diff")
    res["patch_applies_to_head"] = (rc == 0)
    if rc != 0:
        res["apply_output"] = out[-800:]
    else:
        rc1, out1 = sh(demo_cmd)
        res["demo_fails_with_change"] = (rc1 != 0)
        res["demo_output_tail"] = out1[-1200:]
        rc2, out2 = sh("cargo test --workspace --no-fail-fast --offline")
        passed = sum(int(x) for x in re.findall(r"test result: \w+\. (\d+) passed", out2))
        failed = sum(int(x) for x in re.findall(r"(\d+) failed;", out2))
        # subtract the demo's own tests
        res["suite_with_change"] = {"passed_incl_demo": passed, "failed_incl_demo": failed}
        # failures only allowed in the demo
        fails = re.findall(r"^test (\S+) \.\.\. FAILED", out2, re.M)
        res["suite_failures"] = fails
    res["commands"] = [demo_cmd, "git apply patch.diff", "cargo test --workspace --no-fail-fast --offline"]
    ok = res.get("demo_passes_without_change") and res.get("patch_applies_to_head") and res.get("demo_fails_with_change")
    res["confirmed"] = bool(ok)
    d = f"/verif/seeded/{sid}"
    os.makedirs(d, exist_ok=True)
    shutil.copy(f"{src}/{m}.diff", f"{d}/patch.diff")
    shutil.copy(f"{src}/{m}_demo.rs", f"{d}/demo.rs")
    shutil.copy(f"{src}/{m}.md", f"{d}/notes.md")
    json.dump(res, open(f"{d}/verify.json", "w"), indent=1)
    print(json.dumps({k: v for k, v in res.items() if k not in ("demo_output_tail",)}, indent=1))
finally:
    subprocess.run(f"git -C /repo worktree remove --force {wt}", shell=True)
