#!/usr/bin/env python3
"""Render seeded/detection.json as the markdown table of DESIGN.md section 8."""
import json, os, glob, re
V = os.path.dirname(os.path.dirname(os.path.abspath(__file__)))
det = json.load(open(os.path.join(V, "seeded", "detection.json")))
extra = json.load(open(os.path.join(V, "seeded", "detection_notes.json"))) if os.path.exists(os.path.join(V, "seeded", "detection_notes.json")) else {}
rows = []
for d in sorted(glob.glob(os.path.join(V, "seeded", "C*/"))):
    sid = os.path.basename(d.rstrip("/"))
    meta = json.load(open(os.path.join(d, "meta.json")))
    r = det.get(sid)
    if not r:
        rows.append(f"| {sid} | {meta['needs_to_manifest'][:110]} | (not run) | |")
        continue
    if r["detected"]:
        hs = sorted({h for h, _ in r["failed_checks"]})
        why = r["failed_checks"][0][1].split(" @ ")[0].strip('"') if r["failed_checks"] else ""
        verdict = "**caught** by " + ", ".join(f"`{h}`" for h in hs[:3]) + (f" (+{len(hs)-3})" if len(hs) > 3 else "")
        note = why[:90]
    elif r["exit"] == 0:
        verdict = "missed by the " + r["property"] + " quick check"
        note = extra.get(sid, "")
    else:
        verdict = f"inconclusive (exit {r['exit']})"
        note = "; ".join(r.get("inconclusive", []))[:90]
    if sid in extra and r["detected"]:
        note = (note + "; " + extra[sid]) if note else extra[sid]
    rows.append(f"| {sid} | {meta['needs_to_manifest'][:110]} | {verdict} | {note} |")
print("| seeded change | needs, to manifest | result of the property's quick check on the changed tree | failed assertion / remark |")
print("|---|---|---|---|")
print("\n".join(rows))
n = len([1 for s in det.values() if s["detected"]])
print(f"\n{n} of {len(det)} seeded changes are caught by the quick check of their own property.")
