#!/usr/bin/env python3
"""Regenerate /verif/MANIFEST.json from the table below (claimed checks and
not_applicable reasons). Keeps the manifest consistent with the harness files."""
import json, os
V = os.path.dirname(os.path.dirname(os.path.abspath(__file__)))

TECH = "bounded symbolic execution of the real Rust code with Kani 0.68 / CBMC 6.11 (SAT: CaDiCaL); "

CLAIMED = {
 "C01": dict(
  text="Inductive step, decided by the SAT solver for all values within the bounds: from every reachable in-memory state with at most two live entries (ids (u8,u8), payload 0..3 bytes), each public write (vote, append, commit, user data, truncate, purge) through the real RaftLog operation (journal append, state machine, log state) agrees with a reference in-memory Raft log on accept/reject, on the resulting state and live index, and `read` of every range returns exactly the model's entries. Thorough adds the two-step truncate-then-re-append-with-lower-term shape.",
  note="Assumes: chunk rotation cut (the split decision is a ghost flag; its effect is checked in C11), default cache limits (no eviction), pre-state characterisation of reachable states written in kani_support/model.rs (a too-weak characterisation could only cause a false alarm, a too-strong one hides states), BTreeMap replaced by a 4-slot sorted array, ghost file system; not covered: more than 3 live entries, multi-entry append calls, read_buffer_size, closed-chunk reads (C07).",
  tech=TECH + "differential harness against a reference model, inductive step over symbolic pre-states", ref="C01"),
 "C04": dict(
  text="Decided by the SAT solver for all values within the bounds, on the real worker loop FlushWorker::run_inner (with sync_all_files, handle_non_flush_request): for each request script shape from the caller's grammar (flush -> Write[,RemoveChunks]; rotation -> [tail Write,] AppendFile; shapes of 1..4 requests quick, 5 thorough) and EVERY batching schedule of that shape (which try_recv calls see the next request), with symbolic file head lengths/offsets and up to two write/fdatasync failures at symbolic positions: an Ok callback implies that every byte journalled at or before that flush is written and covered by a successful sync of its file (ghost truth, not the worker's bookkeeping); callbacks fire at most once and in request order; without a failure every callback fires exactly once with Ok and the whole script is consumed. Plus the unit harnesses of sync_all_files over 1..3 tracked files (never forgets a file whose sync has not succeeded - the defect fixed in /repo 6ae0d32).",
  note="Sequentialised model: the caller's requests are built at the moment the worker receives them (ghost channel script mode), batching is an enumerated bit mask, data lengths are concrete (0,1,2), I/O goes to a ghost file system whose write/sync may fail symbolically; Vec::with_capacity is stubbed to Vec::new (run_inner pre-allocates 1024 slots). Not covered: real thread interleavings inside a caller operation (argued on paper: the worker shares only the channel, the cache boundary and done_seq with the caller), scripts longer than 5 requests, short writes, that the caller emits exactly this grammar (checked for purge/flush/rotation in C08/C11 harnesses).",
  tech=TECH + "the worker loop run on scripted requests with enumerated batching schedules and symbolic I/O fault injection; ghost-truth monitors inside the callback and unlink stubs", ref="C04"),
 "C06": dict(
  text="Decided for all values within the bounds: from every reachable in-memory state with at most two live entries, a vote / append / commit / truncate whose arguments the sequential specification rejects returns Err and leaves the log state, live index, cache statistics and content, journal buffer, record offsets and worker queue exactly as before (so flush + restart replays an unchanged journal).",
  note="Assumes the same pre-state characterisation and cuts as C01. The restart half of the statement is by composition with the unchanged journal (not encoded: RaftLog::open replay). One-entry append calls only.",
  tech=TECH + "inductive step with before/after state comparison", ref="C06"),
 "C08": dict(
  text="Decided for all values within the bounds: (a) on the real worker loop run_inner, for scripts with a RemoveChunks request (3..5 requests, every batching schedule, up to two symbolic write/fdatasync failures): at every unlink the Write queued before the RemoveChunks (it carries the purge record) is written and successfully synced, and unlinks are oldest-first (the unlink-after-failed-sync defect fixed in /repo 906260e was found here); (b) real RaftLog::purge + flush over a store with two closed chunks and symbolic closing states / purge point: exactly the oldest chunks whose last id is at or below the purge point are scheduled, oldest first, nothing is handed to the worker or unlinked by purge itself (also when the purge record fills the chunk and a rotation happens inside purge), and flush queues the synced Write before RemoveChunks; (c) real handle_non_flush_request(RemoveChunks) unlinks the listed files in list order, all of them, nothing else.",
  note="Not covered: crash points between unlinks (the oldest-first order is what makes every crash image a gap-free suffix), completeness over whole histories ('once flushed and idle every obsolete chunk is gone' is checked for one purge step), real thread interleavings. Trusted: ghost file system, unlink contract, the sequentialised worker model of C04.",
  tech=TECH + "worker loop on scripted requests with ghost-truth unlink monitor + store-level purge/flush step harness + handler unit harness", ref="C08"),
 "C09": dict(
  text="Lemmas decided for all values within the bounds: (L1) the real WALRecord decoder reports UnexpectedEof only when the input is exhausted, for arbitrary content of full-length Commit/Vote frames and for unknown record types (so damage inside a complete record is never taken for a torn tail by the decoder itself); (L2) Chunk::handle_record_error classifies a non-EOF, non-zero tail as an error for every tail content.",
  note="NOT covered: the assembly in Chunk::open / RaftLog::open (BufReader path out of reach), flips that change a length/Option tag so that the decoder legitimately runs to end of file (pre-existing weakness, known finding KF-C09 by reading), missing middle chunk, 'other files untouched'. This is a partial, unit-level claim.",
  tech=TECH + "decoder lemma over symbolic byte buffers + unit harness of the error classifier", ref="C09"),
 "C10": dict(
  text="Unit-level decision logic of tail recovery, decided for all values within the bounds: verify_trailing_zeros is true iff every byte of a symbolic tail (0..6 bytes at any offset) is zero; handle_record_error turns a decode error into 'truncate here' iff truncation is enabled and the error is UnexpectedEof or the tail is all zero, and refuses otherwise (never truncates with the flag off); RecordIterator::next recovers a complete record that ends exactly at the end of the file with its exact segment, then stops, and reports every cut position inside a record as an incomplete record exactly once.",
  note="NOT covered: the assembly of these pieces in Chunk::open (set_len to the last good offset, BufReader) and RaftLog::open continuing after recovery; zero tails longer than 6 bytes; known finding KF-C10 (cut inside the first record of a chunk -> Chunk::last_segment panics in open) found by reading, outside the encoded units. Trusted: pread/metadata stubs.",
  tech=TECH + "unit harnesses over a byte-carrying ghost file", ref="C10"),
 "C11": dict(
  text="Decided for all values within the bounds: one accepted append/commit from any reachable state and any journal position returns a segment that starts at the previous journal end, whose size is exactly the bytes journalled, advances the journal end by that size and on_disk_size accordingly; the chunk-full decision equals (records >= limit or size >= limit) for all limits including 0 and 1; a rotation closes the old chunk under its id, names the new chunk by the old chunk's end, starts it with the state at rotation, creates that file and queues old tail before new file.",
  note="NOT covered: file-name encoding for all u64 (format!/parse under CBMC did not finish; the repo's unit test pins u64::MAX), multi-step histories, bytes on disk after the worker ran, limits' effect over several writes.",
  tech=TECH + "store-level step harnesses with ghost file system", ref="C11"),
 "C12": dict(
  text="Decided for all values within the bounds: every record kind round-trips (decode(encode(r)) == r, encoder-reported length == bytes written == bytes consumed) for all u64 ids and all payload lengths 0..3, State records for the listed Option patterns; decoding an arbitrary frame-sized buffer never panics and an accepted buffer is exactly the canonical encoding (checksum, field order, Option tags, version); every proper prefix of a fixed-size frame is rejected; unknown record types are rejected.",
  note="Real crc32fast table code, codeq checksum reader/writer and codecs are part of the encoding. Instantiations WTypes/KTypes; String / multi-kilobyte payloads and the other State Option patterns (thorough: 8 of 32) are outside the bound.",
  tech=TECH + "round-trip and decode-totality harnesses over symbolic records and byte buffers", ref="C12"),
 "C13": dict(
  text="Code-side obligation, decided within the bounds: real FileLock::new / Drop with a ghost flock table: a second attempt while the owner lives is refused and does not disturb the owner's lock, the lock is released on drop and the next attempt succeeds; real RaftLog::open and Dump::new on a directory locked by someone else return Err before any chunk-file call is made.",
  note="Mutual exclusion itself is the kernel's flock (trusted contract encoded in the stub); more than two contenders, real threads/processes are outside the bound.",
  tech=TECH + "unit harness with a ghost flock table", ref="C13"),
 "C15": dict(
  text="Inductive step, decided for all values within the bounds: from every cache state satisfying size == sum of resident payload sizes (0..3 entries, any limits, any boundary), each real PayloadCache operation (insert, try_evict, drain_evictable, truncate_after, purge_upto, clear, set_last_evictable) preserves exact accounting; after insert/try_evict an over-limit cache holds only entries above the boundary; after drain none at or below it.",
  note="insert assumes the key is not resident (true for accepted appends; rejected writes are C06's subject: they never reach the cache after the /repo 'fix:' commit). Worker timing enters only through the arbitrary boundary value. stat() passthrough is checked in C06 (cache statistics unchanged).",
  tech=TECH + "inductive-step unit harnesses over symbolic cache states", ref="C15"),
 "C16": dict(
  text="Decided for all values within the bounds (u64 ids): truncate, read, purge, append, commit, save_vote with fully symbolic arguments on every reachable in-memory state with at most two live entries never reach a panic, arithmetic overflow, out-of-bounds access or failed unwrap - except the listed known finding (ids whose index is u64::MAX overflow next_log_index), which twin harnesses keep reporting as KNOWN-FINDING.",
  note="Oracle: Kani's built-in panic/overflow/bounds checks (overflow checks on, as in the dev profile). Same pre-state characterisation and cuts as C01; flush/stat/on_disk_size are exercised in other checks, not here.",
  tech=TECH + "panic-freedom harnesses with symbolic arguments over symbolic reachable states", ref="C16"),
}

NA = {
 "C02": "needs RaftLog::open replaying chunk files: every record byte then travels through BufReader's heap buffer, the decoder's control flow becomes symbolic at every record and CBMC's symbolic execution exhausts memory (measured; DESIGN.md §Limits). The parts within reach are claimed elsewhere: journal bookkeeping (C11), codec round trip (C12); replay uses the same StateMachine::apply as the live path.",
 "C03": "crash images + recovery need RaftLog::open/Chunk::open (out of reach, see C02) and the worker loop FlushWorker::run_inner (symbolic execution did not terminate in any encoding tried); only the unit-level lemmas in C04 and C10 could be decided.",
 "C05": "same dependency on RaftLog::open/Chunk::open and on caller/worker interleavings as C03; the suspected defects (rotation creates the new chunk file before the old tail is queued; empty newest chunk panics in open) were found by reading, not by a check.",
 "C07": "needs caller/worker interleavings plus reads from closed chunks through the file system; the worker loop and Chunk::read_record-through-open are out of reach. The two unit lemmas that could be decided live in C15 (nothing above the boundary is evicted) and C04 (boundary advances only after older files are synced). A violation found by reading (id-valued boundary after truncate + lower-term re-append) is documented in DESIGN.md with a native demonstration, not claimed as a check.",
 "C14": "decided by thread lifetime and struct-field drop order (detached worker thread, _dir_lock dropped before wal): Kani has no model of std::thread, and any sequential criterion would also reject a correct join-on-drop repair.",
}

def main():
    props = [json.loads(l)["id"] for l in open(os.path.join(V, "properties.jsonl"))]
    checks = []
    for pid in props:
        if pid not in CLAIMED:
            continue
        c = CLAIMED[pid]
        checks.append({
            "property_id": pid,
            "quick_cmd": f"bin/check {pid} --tier quick",
            "thorough_cmd": f"bin/check {pid} --tier thorough",
            "evidence_file": f"evidence/{pid}.json",
            "replay_cmd_template": "bin/check --show-replay {path}",
            "engine": "kani-overlay",
            "level_claimed": {"category": "model_checking", "text": c["text"], "design_ref": "DESIGN.md §" + c["ref"]},
            "level_note": c["note"],
            "technique": c["tech"],
        })
    na = [{"property_id": p, "reason": r} for p, r in NA.items() if p in props and p not in CLAIMED]
    missing = [p for p in props if p not in CLAIMED and p not in NA]
    assert not missing, missing
    man = {
        "version": 1,
        "setup_cmd": "bin/setup",
        "hooks": {
            "guard": "kani",
            "enable": "no hook is committed to /repo: every check rsyncs /repo's working tree to a scratch copy under /var/tmp, appends #[cfg(kani)] harness modules, substitutes two imports (std BTreeMap -> fixed slot array, std mpsc -> ghost channel) there, and runs `cargo kani` (which sets --cfg kani) on the scratch copy; see bin/overlay.py",
            "baseline_off_cmd": "cd /repo && cargo test --workspace --no-fail-fast --offline",
            "source_commits": [],
            "add_only": True,
        },
        "engines": [{
            "name": "kani-overlay", "path": "bin/check", "serves_properties": sorted(CLAIMED),
            "kind_free_text": "bounded symbolic execution of raft-log's own functions with Kani 0.68 / CBMC 6.11 (CaDiCaL); harnesses in kani/harness, environment stand-ins in kani/support, overlay builder bin/overlay.py",
        }],
        "checks": checks,
        "not_applicable": na,
        "notes": "See DESIGN.md. Exit codes of bin/check: 0 held within bounds (KNOWN-FINDING lines for listed findings) / 1 VIOLATION / 2 inconclusive (timeout, out of memory, vacuous harness, non-reproducing replay) / 3 infrastructure (overlay does not apply, build error). /repo carries unguarded 'fix:' commits for defects the checks found (known_findings.json -> fixed).",
    }
    json.dump(man, open(os.path.join(V, "MANIFEST.json"), "w"), indent=1)
    print("claimed", sorted(CLAIMED), "not_applicable", sorted(x["property_id"] for x in na))

if __name__ == "__main__":
    main()
