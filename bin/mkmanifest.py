#!/usr/bin/env python3
"""Regenerate /verif/MANIFEST.json from the table below (claimed checks and
not_applicable reasons). Keeps the manifest consistent with the harness files."""
import json, os
V = os.path.dirname(os.path.dirname(os.path.abspath(__file__)))

TECH = "bounded symbolic execution of the real Rust code with Kani 0.68 / CBMC 6.11 (SAT: CaDiCaL); "

CLAIMED = {
 "C01": dict(
  text="Inductive step, decided by the SAT solver for all values within the bounds: from every reachable in-memory state with at most two live entries (ids (u8,u8), payload 0..3 bytes), each public write (vote, append, commit, user data, truncate, purge) through the real RaftLog operation (journal append, state machine, log state) agrees with a reference in-memory Raft log on accept/reject, on the resulting state and live index, and `read` of every range returns exactly the model's entries. Thorough adds the two-step truncate-then-re-append-with-lower-term shape.",
  note="Assumes: chunk rotation cut (the split decision is a ghost flag; its effect is checked in C11), default cache limits (no eviction), pre-state characterisation of reachable states written in kani_support/model.rs (a too-weak characterisation could only cause a false alarm, a too-strong one hides states), BTreeMap replaced by a 4-slot sorted array, ghost file system; not covered: more than 3 live entries, multi-entry append calls, read_buffer_size, closed-chunk reads (C07).",
  tech=TECH + "differential harness against a reference model, inductive step over symbolic pre-states", ref="C01"),
 "C02": dict(
  text="Decided by the SAT solver for all values within the bounds, on the real RaftLog::open (directory listing, Chunk::open, RecordIterator, the record codec, RaftLogStateMachine::apply, cache boundary, reopen_last_closed / OpenChunk::create): for directories of one or two chunk files holding 2..5 records of every kind (shapes concrete: vote/append/commit, append-append-truncate-reappend with any legal term, append-append-purge, a non-empty state snapshot at a non-zero offset, two chained chunks; every id, vote, payload byte and user datum symbolic, constrained to be a history the reference log accepts), the reopened store's state, live index and resident payloads equal the reference log after the same records, the healthy last chunk is reused and the journal continues at its end, on_disk_size spans the retained chunks, no file is modified; one further append after the restart agrees with the reference log and is journalled right after the replayed bytes.",
  note="The statement is decided by composition: (i) what a flushed store has on disk is the encoding of its accepted records in order with a state snapshot at each chunk head (C11 step harnesses, C04 for 'flushed'), (ii) the codec round-trips (C12), (iii) THIS check: replaying such files reproduces the reference state. The composition itself (write, flush, close, open in one symbolic run) is outside the bound: one real operation costs 30-60 s of symbolic execution and a flush needs the worker thread. Images are laid down byte-wise by kani_support::image (layout proved equal to the real encoder's in C12) with checksum value 0 (Hasher::update stubbed) - checksum verification itself is C09/C12. Instantiation RTypes (ids (u8,u8), payload 0..3 equal bytes, padded in memory, see DESIGN 3.5); std BufReader replaced by a pass-through reader; Config accessors answered from ghost constants; io::Error::kind() answered from ghost state (DESIGN 3.4). Not covered: reading an entry back from a closed chunk's file after the restart (cache-miss path; measured out of reach, see DESIGN section 7). KNOWN FINDING reported on every run: KF-C02-id-boundary. Bounds: <= 2 chunk files, <= 5 records per file, <= 3 live entries, 96-byte files.",
  tech=TECH + "the real RaftLog::open executed on symbolic chunk-file images (concrete record shapes, symbolic values) and compared with a reference model", ref="C02"),
 "C03": dict(
  text="Recovery side, decided for all values within the bounds: on every crash image in the family of C05/C10 (complete records followed by a torn record, a zero-filled tail or nothing, in the newest chunk of one or two) the opened store's state and entries are exactly those of the complete records - a prefix of the writes issued; no partially written record becomes visible (the torn record's content is arbitrary symbolic bytes up to the cut), every record completely present before the cut is replayed (none dropped). Together with C04 (an Ok callback implies all bytes journalled before that flush are written and covered by a successful sync of their file, so they are in every later crash image) this is the statement; the composition is an argument on paper.",
  note="Claimed as the conjunction of c05_*/c10_* harness results re-read under this property's oracle (tag prop=C03 harnesses are the RaftLog::open-level ones: torn tail with state comparison). Not encoded: a single run containing writes, a flush acknowledgement, a crash and a recovery (needs the worker thread and a crash model of the page cache - unsynced bytes may be lost or reordered by the kernel; the harness family assumes a crash image is a per-file prefix, which is what ext4 ordered mode gives for appends; data=writeback zero-filled tails are C10's zero-tail harnesses). Same image/stub base as C02.",
  tech=TECH + "the real RaftLog::open on symbolic crash images compared with the reference model of the complete prefix", ref="C03"),
 "C04": dict(
  text="Decided by the SAT solver for all values within the bounds, on the real worker loop FlushWorker::run_inner (with sync_all_files, handle_non_flush_request): for each request script shape from the caller's grammar (flush -> Write[,RemoveChunks]; rotation -> [tail Write,] AppendFile; shapes of 1..4 requests quick, 5 thorough) and EVERY batching schedule of that shape (which try_recv calls see the next request), with symbolic file head lengths/offsets and up to two write/fdatasync failures at symbolic positions: an Ok callback implies that every byte journalled at or before that flush is written and covered by a successful sync of its file (ghost truth, not the worker's bookkeeping); callbacks fire at most once and in request order; without a failure every callback fires exactly once with Ok and the whole script is consumed. Plus the unit harnesses of sync_all_files over 1..3 tracked files (never forgets a file whose sync has not succeeded - the defect fixed in /repo 6ae0d32).",
  note="Sequentialised model: the caller's requests are built at the moment the worker receives them (ghost channel script mode), batching is an enumerated bit mask, data lengths are concrete (0,1,2), I/O goes to a ghost file system whose write/sync may fail symbolically; Vec::with_capacity is stubbed to Vec::new (run_inner pre-allocates 1024 slots). Not covered: real thread interleavings inside a caller operation (argued on paper: the worker shares only the channel, the cache boundary and done_seq with the caller), scripts longer than 5 requests, short writes, that the caller emits exactly this grammar (checked for purge/flush/rotation in C08/C11 harnesses).",
  tech=TECH + "the worker loop run on scripted requests with enumerated batching schedules and symbolic I/O fault injection; ghost-truth monitors inside the callback and unlink stubs", ref="C04"),
 "C05": dict(
  text="Decided by the SAT solver for all values within the bounds, on the real RaftLog::open over crash images (what completed file operations can leave: each chunk file a prefix of what was written to it): a newest chunk torn inside its last record (first byte / middle / last byte missing; one or two chunk files) opens, shows exactly the state of the complete records, is cut back durably (set_len + successful sync), is not reused for appending, a fresh chunk file is created exactly at the recovered end, and a further append is accepted and agrees with the reference log; a newest chunk file with NO complete record (empty, cut inside its head snapshot, also as the only file of a fresh directory) is discarded and the previous chunk continues the journal (the panic fixed in /repo 5a57fa8 was found here). Oracle includes Kani's panic/overflow/bounds checks over the whole of open ('recovery never panics'). The cut positions of every record kind at Chunk::open level are C10's harnesses.",
  note="KNOWN FINDING reported on every run: KF-C05-rotation-gap (rotation creates and fills the new chunk file before the old chunk's tail is queued; that crash image is refused with 'Gap between chunks'). Which crash images are reachable is an argument on paper (DESIGN C05): the caller writes only in OpenChunk::create, the worker appends to the newest file and syncs oldest-first (C04), unlinks oldest-first after the purge is durable (C08). Not covered: a second restart in the same run, flush after recovery (needs the worker), more than two files, crash inside set_len. Same image/stub base as C02.",
  tech=TECH + "the real RaftLog::open executed on symbolic crash images; known-finding twin harness for the rotation gap", ref="C05"),
 "C06": dict(
  text="Decided for all values within the bounds: from every reachable in-memory state with at most two live entries, a vote / append / commit / truncate whose arguments the sequential specification rejects returns Err and leaves the log state, live index, cache statistics and content, journal buffer, record offsets and worker queue exactly as before (so flush + restart replays an unchanged journal).",
  note="Assumes the same pre-state characterisation and cuts as C01. The restart half of the statement is by composition with the unchanged journal (not encoded: RaftLog::open replay). One-entry append calls only.",
  tech=TECH + "inductive step with before/after state comparison", ref="C06"),
 "C08": dict(
  text="Decided for all values within the bounds: (a) on the real worker loop run_inner, for scripts with a RemoveChunks request (3..5 requests, every batching schedule, up to two symbolic write/fdatasync failures): at every unlink the Write queued before the RemoveChunks (it carries the purge record) is written and successfully synced, and unlinks are oldest-first (the unlink-after-failed-sync defect fixed in /repo 906260e was found here); (b) real RaftLog::purge + flush over a store with two closed chunks and symbolic closing states / purge point: exactly the oldest chunks whose last id is at or below the purge point are scheduled, oldest first, nothing is handed to the worker or unlinked by purge itself (also when the purge record fills the chunk and a rotation happens inside purge), and flush queues the synced Write before RemoveChunks; (c) real handle_non_flush_request(RemoveChunks) unlinks the listed files in list order, all of them, nothing else.",
  note="Not covered: crash points between unlinks (the oldest-first order is what makes every crash image a gap-free suffix), completeness over whole histories ('once flushed and idle every obsolete chunk is gone' is checked for one purge step), real thread interleavings. Trusted: ghost file system, unlink contract, the sequentialised worker model of C04.",
  tech=TECH + "worker loop on scripted requests with ghost-truth unlink monitor + store-level purge/flush step harness + handler unit harness", ref="C08"),
 "C09": dict(
  text="Decided for all values within the bounds, with the real CRC-32: (a) on the real Chunk::open over a four-record chunk, one byte of a complete record (the second record of a two-record chunk) altered by an arbitrary non-zero mask - the high bytes of the type word, both id bytes, every byte of the checksum field (quick: one id byte and one checksum byte; thorough: all thirteen positions, one per harness): open returns an error and does not touch the file; the block-wise zero-tail scan (verify_trailing_zeros, block size 8 through a stub) says 'zero' iff every byte of every block is zero, so a damaged record in front of a zero-filled tail is not absorbed; (b) on the real RaftLog::open, a chunk file missing in the middle of the journal (gap of any size 1..10^6): open fails and no file is modified; (c) lemmas: the decoder reports UnexpectedEof only when the input is exhausted, handle_record_error never classifies a non-EOF non-zero tail as truncatable.",
  note="KNOWN FINDINGS reported on every run: KF-C09-eof-absorbed (an alteration in the LAST record that makes the decoder want more bytes than the file holds is taken for a torn tail and silently cut away) and KF-C09-nonnewest-truncated (a refused open has already cut the incomplete tail off an older chunk). The main harnesses cover alterations that do not change a record's length. Not covered (measured out of reach, DESIGN section 7): the low byte of the type word (the record is re-read as every other kind), an altered record that is followed by further records, payload bytes of an Append, the head snapshot's Option tags, two altered bytes, reading an altered entry through Chunk::read_record after open (pread path). Same image/stub base as C02, checksums real.",
  tech=TECH + "the real Chunk::open / RaftLog::open on images with one byte altered by a symbolic mask, real CRC-32; known-finding twin harnesses", ref="C09"),
 "C10": dict(
  text="Decided for all values within the bounds, on the real Chunk::open (RecordIterator, codec, handle_record_error, verify_trailing_zeros, set_len + sync_all) over a chunk of three complete records followed by a fourth of every kind (SaveVote, Append, TruncateAfter(None|Some), PurgeUpto, State): cut at EVERY byte position inside the fourth record (quick: vote, state and append subsets; thorough: all kinds, all positions) open succeeds, returns exactly the three complete records with their exact offsets and contents, cuts the file back to their end durably and records the truncation; a zero-filled tail of 3, 4, 9 or 20 bytes (real CRC) likewise; with truncation disabled every such image makes open fail and leaves the file untouched; a complete chunk is returned whole and unmodified. At RaftLog::open level: a torn tail with truncation disabled is refused and nothing in the directory is touched or created (the enabled case, the fresh chunk after the cut and the write that follows are C05's harnesses). Plus the unit lemmas of handle_record_error / verify_trailing_zeros / RecordIterator.",
  note="Bounds: four records, 96-byte files, ids (u8,u8); checksum value 0 in the cut harnesses (a torn record never reaches its checksum), real CRC in the zero-tail harnesses. Zero tails longer than 20 bytes and cuts in chunks with more records are outside the bound (the code has no dependence on the number of preceding records beyond the offsets vector). Same image/stub base as C02.",
  tech=TECH + "the real Chunk::open executed on symbolic chunk images for every cut position / tail length (concrete enumeration of positions, symbolic contents)", ref="C10"),
 "C11": dict(
  text="Decided for all values within the bounds: one accepted append/commit from any reachable state and any journal position returns a segment that starts at the previous journal end, whose size is exactly the bytes journalled, advances the journal end by that size and on_disk_size accordingly; the chunk-full decision equals (records >= limit or size >= limit) for all limits including 0 and 1; a rotation closes the old chunk under its id, names the new chunk by the old chunk's end, starts it with the state at rotation, creates that file and queues old tail before new file.",
  note="NOT covered: file-name encoding for all u64 (format!/parse under CBMC did not finish; the repo's unit test pins u64::MAX), multi-step histories, bytes on disk after the worker ran, limits' effect over several writes.",
  tech=TECH + "store-level step harnesses with ghost file system", ref="C11"),
 "C12": dict(
  text="Decided for all values within the bounds: every record kind round-trips (decode(encode(r)) == r, encoder-reported length == bytes written == bytes consumed) for all u64 ids and all payload lengths 0..3, State records for the listed Option patterns; decoding an arbitrary frame-sized buffer never panics and an accepted buffer is exactly the canonical encoding (checksum, field order, Option tags, version); every proper prefix of a fixed-size frame is rejected; unknown record types are rejected.",
  note="Real crc32fast table code, codeq checksum reader/writer and codecs are part of the encoding. Instantiations WTypes/KTypes; String / multi-kilobyte payloads and the other State Option patterns (thorough: 8 of 32) are outside the bound.",
  tech=TECH + "round-trip and decode-totality harnesses over symbolic records and byte buffers", ref="C12"),
 "C13": dict(
  text="Code-side obligation, decided within the bounds: real FileLock::new / Drop with a ghost flock table: a second attempt while the owner lives is refused and does not disturb the owner's lock, the lock is released on drop and the next attempt succeeds; real RaftLog::open and Dump::new on a directory locked by someone else return Err before any chunk-file call is made.",
  note="Mutual exclusion itself is the kernel's flock (trusted contract encoded in the stub); more than two contenders, real threads/processes are outside the bound.",
  tech=TECH + "unit harness with a ghost flock table", ref="C13"),
 "C15": dict(
  text="Inductive step, decided for all values within the bounds: from every cache state satisfying size == sum of resident payload sizes (0..3 entries, any limits, any boundary), each real PayloadCache operation (insert, try_evict, drain_evictable, truncate_after, purge_upto, clear, set_last_evictable) preserves exact accounting; after insert/try_evict an over-limit cache holds only entries above the boundary; after drain none at or below it.",
  note="insert assumes the key is not resident (true for accepted appends; rejected writes are C06's subject: they never reach the cache after the /repo 'fix:' commit). Worker timing enters only through the arbitrary boundary value. stat() passthrough is checked in C06 (cache statistics unchanged).",
  tech=TECH + "inductive-step unit harnesses over symbolic cache states", ref="C15"),
 "C16": dict(
  text="Decided for all values within the bounds (u64 ids): truncate, read, purge, append, commit, save_vote with fully symbolic arguments on every reachable in-memory state with at most two live entries never reach a panic, arithmetic overflow, out-of-bounds access or failed unwrap - except the listed known finding (ids whose index is u64::MAX overflow next_log_index), which twin harnesses keep reporting as KNOWN-FINDING.",
  note="Oracle: Kani's built-in panic/overflow/bounds checks (overflow checks on, as in the dev profile). Same pre-state characterisation and cuts as C01; flush/stat/on_disk_size are exercised in other checks, not here.",
  tech=TECH + "panic-freedom harnesses with symbolic arguments over symbolic reachable states", ref="C16"),
}

NA = {
 "C07": "the statement quantifies over background-worker progress (data buffered, in flight, written, synced, evicted) and concurrent readers: it needs caller/worker interleavings with real reads in between, i.e. the worker loop (verifiable only on scripted requests, C04) composed with store-level reads (each 30-60 s of symbolic execution) - out of reach as one check. Decided pieces that bear on it live under other ids: nothing above the boundary is evicted (C15), the boundary advances only after older files are synced (C04 unit harnesses), the restart-path instance of the id-valued boundary defect is a known finding under C02 (KF-C02-id-boundary). A violation found by reading (id-valued boundary after truncate + lower-term re-append: live entries of the OPEN chunk become evictable and unreadable) is documented in DESIGN.md section 6 with a native demonstration; it is not claimed as a check because reaching it needs worker progress between two caller operations.",
 "C14": "decided by thread lifetime and struct-field drop order (detached worker thread, _dir_lock dropped before wal): Kani has no model of std::thread, and any sequential criterion would also reject a correct join-on-drop repair.",
}

def main():
    props = [json.loads(l)["id"] for l in open(os.path.join(V, "properties.jsonl"))]
    checks = []
    for pid in props:
        if pid not in CLAIMED:
            continue
        c = CLAIMED[pid]
        checks.append({
            "property_id": pid,
            "quick_cmd": f"bin/check {pid} --tier quick",
            "thorough_cmd": f"bin/check {pid} --tier thorough",
            "evidence_file": f"evidence/{pid}.json",
            "replay_cmd_template": "bin/check --show-replay {path}",
            "engine": "kani-overlay",
            "level_claimed": {"category": "model_checking", "text": c["text"], "design_ref": "DESIGN.md §" + c["ref"]},
            "level_note": c["note"],
            "technique": c["tech"],
        })
    na = [{"property_id": p, "reason": r} for p, r in NA.items() if p in props and p not in CLAIMED]
    missing = [p for p in props if p not in CLAIMED and p not in NA]
    assert not missing, missing
    man = {
        "version": 1,
        "setup_cmd": "bin/setup",
        "hooks": {
            "guard": "kani",
            "enable": "no hook is committed to /repo: every check rsyncs /repo's working tree to a scratch copy under /var/tmp, appends #[cfg(kani)] harness modules, substitutes three std types (BTreeMap -> fixed slot array, mpsc -> ghost channel, io::BufReader -> pass-through reader) there, and runs `cargo kani` (which sets --cfg kani) on the scratch copy; see bin/overlay.py",
            "baseline_off_cmd": "cd /repo && cargo test --workspace --no-fail-fast --offline",
            "source_commits": [],
            "add_only": True,
        },
        "engines": [{
            "name": "kani-overlay", "path": "bin/check", "serves_properties": sorted(CLAIMED),
            "kind_free_text": "bounded symbolic execution of raft-log's own functions with Kani 0.68 / CBMC 6.11 (CaDiCaL); harnesses in kani/harness, environment stand-ins in kani/support, overlay builder bin/overlay.py",
        }],
        "checks": checks,
        "not_applicable": na,
        "notes": "See DESIGN.md. Exit codes of bin/check: 0 held within bounds (KNOWN-FINDING lines for listed findings) / 1 VIOLATION / 2 inconclusive (timeout, out of memory, vacuous harness, non-reproducing replay) / 3 infrastructure (overlay does not apply, build error). /repo carries unguarded 'fix:' commits for defects the checks found (known_findings.json -> fixed).",
    }
    json.dump(man, open(os.path.join(V, "MANIFEST.json"), "w"), indent=1)
    print("claimed", sorted(CLAIMED), "not_applicable", sorted(x["property_id"] for x in na))

if __name__ == "__main__":
    main()
