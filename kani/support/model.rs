//! Reference model of C01 ("a plain in-memory Raft log") over at most three
//! live entries, plus injection of an arbitrary *reachable* in-memory state
//! into a store obtained from the real `RaftLog::open`.
use crate::ChunkId;
use crate::RaftLog;
use crate::kani_support::ktypes::*;
use crate::kani_support::slotmap::BTreeMap;
use crate::raft_log::log_data::LogData;
use crate::types::Segment;

pub(crate) type Id = (u8, u8);

#[derive(Clone, Copy, PartialEq, Eq)]
pub(crate) struct Model {
    pub vote: Option<Id>,
    pub last: Option<Id>,
    pub committed: Option<Id>,
    pub purged: Option<Id>,
    pub user_data: Option<u8>,
    /// live entries, packed, increasing index
    pub n: usize,
    pub e: [(Id, P); 3],
}

pub(crate) fn next_index(id: Option<Id>) -> u64 {
    match id {
        Some(i) => i.1 as u64 + 1,
        None => 0,
    }
}

impl Model {
    /// Arbitrary reachable state with at most two live entries.
    pub(crate) fn any_reachable() -> Model {
        Self::any_reachable_n(2)
    }

    /// As `any_reachable`, with the Option pattern of vote / committed /
    /// purged / user data fixed by the caller (all Some or all None): for
    /// harnesses in which the state is *encoded* (chunk rotation), where a
    /// symbolic pattern makes the encoder walk all 32 of them.
    pub(crate) fn any_reachable_shaped(some: bool) -> Model {
        let mut m = Self::any_reachable_p(2, if some { Some(kani::any()) } else { None });
        m.vote = if some { Some(kani::any()) } else { None };
        m.committed = if some { Some(kani::any()) } else { None };
        m.user_data = if some { Some(kani::any()) } else { None };
        m
    }

    /// Arbitrary reachable state with at most `nmax` (<= 3) live entries.
    pub(crate) fn any_reachable_n(nmax: usize) -> Model {
        Self::any_reachable_p(nmax, kani::any())
    }

    fn any_reachable_p(nmax: usize, purged: Option<Id>) -> Model {
        let n: usize = kani::any();
        kani::assume(n <= nmax && n <= 3);
        let e0: (Id, P) = (kani::any(), kani::any());
        let e1: (Id, P) = (kani::any(), kani::any());
        let e2: (Id, P) = if nmax >= 3 { (kani::any(), kani::any()) } else { ((255, 255), P::new(0, 0)) };
        // ids stay below 250 so that index+1 never overflows u8 (the u64
        // boundary is C16's subject)
        kani::assume(e0.0 .1 < 250 && e1.0 .1 < 250);
        if n >= 3 {
            kani::assume(e2.0 .1 < 250 && e2.0 .1 == e1.0 .1 + 1 && e2.0 > e1.0);
        }
        if let Some(p) = purged {
            kani::assume(p.1 < 250);
            if n >= 1 {
                kani::assume(e0.0 .1 == p.1 + 1 && e0.0 > p);
            }
        }
        if n >= 2 {
            kani::assume(e1.0 .1 == e0.0 .1 + 1 && e1.0 > e0.0);
        }
        let last = if n >= 3 {
            Some(e2.0)
        } else if n == 2 {
            Some(e1.0)
        } else if n == 1 {
            Some(e0.0)
        } else {
            purged
        };
        Model {
            vote: kani::any(),
            last,
            committed: kani::any(),
            purged,
            user_data: kani::any(),
            n,
            e: [e0, e1, e2],
        }
    }

    pub(crate) fn find(&self, index: u64) -> Option<Id> {
        let mut r = None;
        let mut i = 0;
        while i < 3 {
            if i < self.n && self.e[i].0 .1 as u64 == index {
                r = Some(self.e[i].0);
            }
            i += 1;
        }
        r
    }

    pub(crate) fn vote_ok(&self, v: Id) -> bool {
        Some(v) >= self.vote
    }

    pub(crate) fn append_ok(&self, id: Id) -> bool {
        Some(id) > self.last && (self.last.is_none() || id.1 as u64 == next_index(self.last))
    }

    pub(crate) fn commit_ok(&self, id: Id) -> bool {
        Some(id) >= self.committed
    }

    /// the id after which everything is cut, if `truncate(index)` is accepted
    pub(crate) fn truncate_target(&self, index: u64) -> Option<Option<Id>> {
        if index == next_index(self.purged) {
            Some(self.purged)
        } else if index == 0 {
            None
        } else {
            self.find(index - 1).map(Some)
        }
    }

    pub(crate) fn do_vote(&mut self, v: Id) {
        self.vote = Some(v);
    }

    pub(crate) fn do_append(&mut self, id: Id, p: P) {
        if self.n >= 3 {
            kani::assume(false);
        }
        self.e[self.n] = (id, p);
        self.n += 1;
        self.last = Some(id);
    }

    pub(crate) fn do_commit(&mut self, id: Id) {
        self.committed = Some(id);
    }

    pub(crate) fn do_truncate(&mut self, after: Option<Id>) {
        let cut = next_index(after);
        let mut keep = 0;
        let mut i = 0;
        while i < 3 {
            if i < self.n && (self.e[i].0 .1 as u64) < cut {
                keep = i + 1;
            }
            i += 1;
        }
        self.n = keep;
        if self.last > after {
            self.last = after;
        }
    }

    /// purge of a Raft-legal `upto` (see `purge_legal`)
    pub(crate) fn do_purge(&mut self, upto: Id) {
        if (upto.1 as u64) < next_index(self.purged) {
            return;
        }
        // drop entries with index <= upto.index
        let mut out = [self.e[2]; 3];
        let mut m = 0;
        let mut i = 0;
        while i < 3 {
            if i < self.n && self.e[i].0 .1 > upto.1 {
                out[m] = self.e[i];
                m += 1;
            }
            i += 1;
        }
        self.e = out;
        self.n = m;
        if self.purged < Some(upto) {
            self.purged = Some(upto);
        }
        if Some(upto) > self.last {
            self.last = Some(upto);
        }
    }

    /// Raft-legal purge argument: the id of a live entry, or an id beyond last
    /// (snapshot installed ahead of the log), or anything at or below purged.
    pub(crate) fn purge_legal(&self, upto: Id) -> bool {
        if (upto.1 as u64) < next_index(self.purged) {
            return true;
        }
        match self.find(upto.1 as u64) {
            Some(id) => id == upto,
            None => Some(upto) > self.last && Some(upto) > self.purged,
        }
    }
}

/// Put the model state into the store's in-memory state (state machine index,
/// payload cache, log state). Journal positions are dummies: every live
/// payload is resident, C01 assumes no eviction.
pub(crate) fn inject<T: Narrow>(rl: &mut RaftLog<T>, m: &Model) {
    let seg = Segment::new(0, 0);
    let ld = |id: Id| LogData::<T>::new(id, ChunkId(0), seg);
    rl.state_machine.log = BTreeMap::from_sorted3(
        (m.e[0].0 .1 as u64, ld(m.e[0].0)),
        (m.e[1].0 .1 as u64, ld(m.e[1].0)),
        (m.e[2].0 .1 as u64, ld(m.e[2].0)),
        m.n,
    );
    {
        let mut c = rl.state_machine.payload_cache.write().unwrap();
        if m.n >= 1 {
            c.insert(m.e[0].0, T::LogPayload::mk(m.e[0].1.n, m.e[0].1.b));
        }
        if m.n >= 2 {
            c.insert(m.e[1].0, T::LogPayload::mk(m.e[1].1.n, m.e[1].1.b));
        }
        if m.n >= 3 {
            c.insert(m.e[2].0, T::LogPayload::mk(m.e[2].1.n, m.e[2].1.b));
        }
    }
    let s = rl.log_state_mut();
    s.purged = m.purged;
    s.last = m.last;
    s.committed = m.committed;
    s.vote = m.vote;
    s.user_data = m.user_data;
}

/// The store's observable in-memory state equals the model.
pub(crate) fn assert_matches<T: Narrow>(rl: &RaftLog<T>, m: &Model) {
    let s = rl.log_state();
    assert!(s.vote == m.vote, "vote differs from the reference log");
    assert!(s.last == m.last, "last differs from the reference log");
    assert!(s.committed == m.committed, "committed differs from the reference log");
    assert!(s.purged == m.purged, "purged differs from the reference log");
    assert!(s.user_data == m.user_data, "user data differs from the reference log");
    let log = &rl.state_machine.log;
    assert!(log.len() == m.n, "number of live entries differs from the reference log");
    let mut i = 0;
    while i < 3 {
        if i < m.n {
            match log.slot(i) {
                Some((k, d)) => {
                    assert!(*k == m.e[i].0 .1 as u64, "live index differs");
                    assert!(d.log_id == m.e[i].0, "live log id differs");
                }
                None => assert!(false, "live entry missing"),
            }
        }
        i += 1;
    }
}

/// `read(from, to)` returns exactly the model's entries in [from, to), in
/// index order, each with the id and payload originally supplied.
pub(crate) fn assert_read<T: Narrow>(rl: &RaftLog<T>, m: &Model, from: u64, to: u64) {
    let mut it = rl.read(from, to);
    let mut i = 0;
    while i < 3 {
        if i < m.n {
            let idx = m.e[i].0 .1 as u64;
            if idx >= from && idx < to {
                match it.next() {
                    Some(Ok((id, p))) => {
                        assert!(id == m.e[i].0, "read returns a wrong log id");
                        assert!(p.nb() == m.e[i].1.nb(), "read returns a wrong payload");
                    }
                    Some(Err(e)) => {
                        core::mem::forget(e);
                        assert!(false, "read of a live entry failed");
                    }
                    None => assert!(false, "read misses a live entry"),
                }
            }
        }
        i += 1;
    }
    match it.next() {
        None => {}
        Some(r) => {
            core::mem::forget(r);
            assert!(false, "read returns an entry that is not live");
        }
    }
    core::mem::forget(it);
}

/// Every live payload is resident in the cache with the model's content (used
/// where walking the real read path - cache or closed chunk file - for every
/// entry is too expensive; the read path has its own harnesses).
pub(crate) fn assert_cached<T: Narrow>(rl: &RaftLog<T>, m: &Model) {
    let c = rl.state_machine.payload_cache.read().unwrap();
    let mut i = 0;
    while i < 3 {
        if i < m.n {
            match c.cache.get(&m.e[i].0) {
                Some(q) => assert!(q.nb() == m.e[i].1.nb(), "cached payload differs from the reference log"),
                None => assert!(false, "live payload is not resident"),
            }
        }
        i += 1;
    }
}
