//! Shared harness helpers: build a store through the real `RaftLog::open` on an
//! empty ghost directory.
use std::sync::Arc;

use crate::Config;
use crate::RaftLog;
use crate::Types;

pub(crate) fn mk_config(
    max_records: Option<usize>,
    max_size: Option<usize>,
    cache_items: Option<usize>,
    cache_cap: Option<usize>,
) -> Arc<Config> {
    let c = Config {
        dir: String::new(),
        log_cache_max_items: cache_items,
        log_cache_capacity: cache_cap,
        read_buffer_size: Some(64),
        chunk_max_records: max_records,
        chunk_max_size: max_size,
        truncate_incomplete_record: None,
    };
    // Config accessors answer from ghost constants (stubs::cfg_*): a field read
    // back through the Arc is not a constant for symbolic execution
    crate::kani_support::stubs::cfg_set(&c);
    Arc::new(c)
}

/// Open on the (initially empty) ghost directory. The worker is parked.
pub(crate) fn open_empty<T: Types>(cfg: Arc<Config>) -> RaftLog<T> {
    match RaftLog::<T>::open(cfg) {
        Ok(rl) => rl,
        Err(e) => {
            core::mem::forget(e);
            panic!("open on an empty ghost directory failed");
        }
    }
}

/// Consume a result without running io::Error's drop glue.
pub(crate) fn is_ok<V>(r: Result<V, std::io::Error>) -> bool {
    match r {
        Ok(v) => {
            core::mem::forget(v);
            true
        }
        Err(e) => {
            core::mem::forget(e);
            false
        }
    }
}

/// Configuration for the harnesses that replay chunk files: the read buffer
/// size and the truncation switch are ghost constants (stubs::CFG_*, tied to
/// the real fields by an assumption inside the accessor stubs).
pub(crate) fn replay_config(truncate: Option<bool>) -> Arc<Config> {
    replay_config_cache(truncate, None, None)
}

pub(crate) fn replay_config_cache(truncate: Option<bool>, cache_items: Option<usize>, cache_cap: Option<usize>) -> Arc<Config> {
    let c = Config {
        dir: String::new(),
        log_cache_max_items: cache_items,
        log_cache_capacity: cache_cap,
        read_buffer_size: Some(0),
        chunk_max_records: None,
        chunk_max_size: None,
        truncate_incomplete_record: truncate,
    };
    crate::kani_support::stubs::cfg_set(&c);
    Arc::new(c)
}
