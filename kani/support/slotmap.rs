//! Fixed-capacity, sorted slot-array stand-in for `std::collections::BTreeMap`
//! (see DESIGN.md §3.2). Only the API subset raft-log uses (plus a few
//! neighbours so that small refactorings of raft-log still compile).
//! Exceeding `CAP` entries is outside every claim: `kani::assume(false)`.

use core::borrow::Borrow;
use core::ops::Bound;
use core::ops::RangeBounds;

pub(crate) const CAP: usize = 4;

#[derive(Debug, Clone)]
pub(crate) struct BTreeMap<K, V> {
    /// Sorted by key, packed in `slots[..len]`.
    slots: [Option<(K, V)>; CAP],
    len: usize,
}

impl<K, V> Default for BTreeMap<K, V> {
    fn default() -> Self {
        Self::new()
    }
}

impl<K, V> BTreeMap<K, V> {
    /// Swap two slots with typed moves. `slice::swap` / `mem::swap` go through
    /// `swap_nonoverlapping_chunks`, a loop over 8-byte words whose trip count
    /// depends on the element size (and then needs a large unwind bound).
    fn swap_slots(slots: &mut [Option<(K, V)>; CAP], a: usize, b: usize) {
        if a == b {
            return;
        }
        unsafe {
            let pa: *mut Option<(K, V)> = &mut slots[a];
            let pb: *mut Option<(K, V)> = &mut slots[b];
            let t = core::ptr::read(pa);
            core::ptr::write(pa, core::ptr::read(pb));
            core::ptr::write(pb, t);
        }
    }

    pub(crate) const fn new() -> Self {
        Self {
            slots: [None, None, None, None],
            len: 0,
        }
    }

    pub(crate) fn len(&self) -> usize {
        self.len
    }

    pub(crate) fn is_empty(&self) -> bool {
        self.len == 0
    }

    pub(crate) fn clear(&mut self) {
        let mut i = 0;
        while i < CAP {
            if i < self.len {
                self.slots[i] = None;
            }
            i += 1;
        }
        self.len = 0;
    }

    pub(crate) fn first_key_value(&self) -> Option<(&K, &V)> {
        match &self.slots[0] {
            Some((k, v)) if self.len > 0 => Some((k, v)),
            _ => None,
        }
    }

    pub(crate) fn last_key_value(&self) -> Option<(&K, &V)> {
        if self.len == 0 {
            return None;
        }
        match &self.slots[self.len - 1] {
            Some((k, v)) => Some((k, v)),
            None => None,
        }
    }

    pub(crate) fn pop_first(&mut self) -> Option<(K, V)> {
        if self.len == 0 {
            return None;
        }
        // move slot 0 to the end by swaps (no assignment => no drop glue)
        let mut i = 0;
        while i + 1 < CAP {
            if i + 1 < self.len {
                Self::swap_slots(&mut self.slots, i, i + 1);
            }
            i += 1;
        }
        self.len -= 1;
        self.slots[self.len].take()
    }

    pub(crate) fn pop_last(&mut self) -> Option<(K, V)> {
        if self.len == 0 {
            return None;
        }
        self.len -= 1;
        self.slots[self.len].take()
    }

    pub(crate) fn iter(&self) -> Iter<'_, K, V> {
        Iter {
            m: self,
            i: 0,
            end: self.len,
        }
    }

    pub(crate) fn values(&self) -> Values<'_, K, V> {
        Values { it: self.iter() }
    }

    pub(crate) fn keys(&self) -> Keys<'_, K, V> {
        Keys { it: self.iter() }
    }

    /// Harness-side raw access (not part of std's API).
    pub(crate) fn slot(&self, i: usize) -> Option<&(K, V)> {
        if i < self.len {
            self.slots[i].as_ref()
        } else {
            None
        }
    }
}

impl<K: Ord, V> BTreeMap<K, V> {
    /// Index of the first slot whose key is >= `key` (== len if none).
    fn lower_bound<Q>(&self, key: &Q) -> usize
    where
        K: Borrow<Q>,
        Q: Ord + ?Sized,
    {
        let mut pos = 0;
        let mut i = 0;
        while i < CAP {
            if i < self.len {
                if let Some((k, _)) = &self.slots[i] {
                    if k.borrow() < key {
                        pos = i + 1;
                    }
                }
            }
            i += 1;
        }
        pos
    }

    /// Index of the first slot whose key is > `key` (== len if none).
    fn upper_bound<Q>(&self, key: &Q) -> usize
    where
        K: Borrow<Q>,
        Q: Ord + ?Sized,
    {
        let mut pos = 0;
        let mut i = 0;
        while i < CAP {
            if i < self.len {
                if let Some((k, _)) = &self.slots[i] {
                    if k.borrow() <= key {
                        pos = i + 1;
                    }
                }
            }
            i += 1;
        }
        pos
    }

    fn find<Q>(&self, key: &Q) -> Option<usize>
    where
        K: Borrow<Q>,
        Q: Ord + ?Sized,
    {
        let p = self.lower_bound(key);
        if p < self.len {
            if let Some((k, _)) = &self.slots[p] {
                if k.borrow() == key {
                    return Some(p);
                }
            }
        }
        None
    }

    pub(crate) fn get<Q>(&self, key: &Q) -> Option<&V>
    where
        K: Borrow<Q>,
        Q: Ord + ?Sized,
    {
        match self.find(key) {
            Some(p) => self.slots[p].as_ref().map(|kv| &kv.1),
            None => None,
        }
    }

    pub(crate) fn get_mut<Q>(&mut self, key: &Q) -> Option<&mut V>
    where
        K: Borrow<Q>,
        Q: Ord + ?Sized,
    {
        match self.find(key) {
            Some(p) => self.slots[p].as_mut().map(|kv| &mut kv.1),
            None => None,
        }
    }

    pub(crate) fn contains_key<Q>(&self, key: &Q) -> bool
    where
        K: Borrow<Q>,
        Q: Ord + ?Sized,
    {
        self.find(key).is_some()
    }

    pub(crate) fn insert(&mut self, key: K, value: V) -> Option<V> {
        if let Some(p) = self.find(&key) {
            let old = self.slots[p].take();
            unsafe { core::ptr::write(&mut self.slots[p], Some((key, value))) };
            return old.map(|kv| kv.1);
        }
        if self.len >= CAP {
            // More than CAP live entries: outside the stated bound.
            #[cfg(kani)]
            kani::assume(false);
            #[cfg(not(kani))]
            panic!("slotmap capacity exceeded");
        }
        let p = self.lower_bound(&key);
        // put the new entry into the free slot `len`, then bubble it down to p
        // by swaps (no assignment over a live slot => no drop glue)
        let l = self.len;
        unsafe { core::ptr::write(&mut self.slots[l], Some((key, value))) };
        self.len += 1;
        let mut i = CAP - 1;
        while i > 0 {
            if i > p && i <= l {
                Self::swap_slots(&mut self.slots, i, i - 1);
            }
            i -= 1;
        }
        None
    }

    pub(crate) fn remove<Q>(&mut self, key: &Q) -> Option<V>
    where
        K: Borrow<Q>,
        Q: Ord + ?Sized,
    {
        let p = self.find(key)?;
        let mut i = 0;
        while i + 1 < CAP {
            if i >= p && i + 1 < self.len {
                Self::swap_slots(&mut self.slots, i, i + 1);
            }
            i += 1;
        }
        self.len -= 1;
        self.slots[self.len].take().map(|kv| kv.1)
    }

    /// Splits the collection into two at the given key. Returns everything
    /// after the given key, including the key.
    pub(crate) fn split_off<Q>(&mut self, key: &Q) -> Self
    where
        K: Borrow<Q>,
        Q: Ord + ?Sized,
    {
        let p = self.lower_bound(key);
        let mut out = Self::new();
        let mut i = 0;
        while i < CAP {
            if i >= p && i < self.len {
                // out.slots[i - p] is None: move the entry over, leave None behind
                unsafe {
                    let v = core::ptr::read(&self.slots[i]);
                    core::ptr::write(&mut self.slots[i], None);
                    core::ptr::write(&mut out.slots[i - p], v);
                }
            }
            i += 1;
        }
        out.len = self.len - p;
        self.len = p;
        out
    }

    pub(crate) fn retain<F>(&mut self, mut f: F)
    where F: FnMut(&K, &mut V) -> bool {
        let mut out = Self::new();
        let mut i = 0;
        while i < CAP {
            if i < self.len {
                if let Some((k, mut v)) = self.slots[i].take() {
                    if f(&k, &mut v) {
                        let l = out.len;
                        unsafe { core::ptr::write(&mut out.slots[l], Some((k, v))) };
                        out.len += 1;
                    }
                }
            }
            i += 1;
        }
        *self = out;
    }

    pub(crate) fn range<Q, R>(&self, range: R) -> Iter<'_, K, V>
    where
        K: Borrow<Q>,
        Q: Ord + ?Sized,
        R: RangeBounds<Q>,
    {
        // std's documented panics: start > end, or start == end both Excluded.
        match (range.start_bound(), range.end_bound()) {
            (Bound::Excluded(s), Bound::Excluded(e)) if s == e => {
                panic!("range start and end are equal and excluded in BTreeMap")
            }
            (Bound::Included(s) | Bound::Excluded(s), Bound::Included(e) | Bound::Excluded(e))
                if s > e =>
            {
                panic!("range start is greater than range end in BTreeMap")
            }
            _ => {}
        }
        let lo = match range.start_bound() {
            Bound::Unbounded => 0,
            Bound::Included(s) => self.lower_bound(s),
            Bound::Excluded(s) => self.upper_bound(s),
        };
        let hi = match range.end_bound() {
            Bound::Unbounded => self.len,
            Bound::Included(e) => self.upper_bound(e),
            Bound::Excluded(e) => self.lower_bound(e),
        };
        Iter {
            m: self,
            i: lo,
            end: if hi < lo { lo } else { hi },
        }
    }
}

pub(crate) struct Iter<'a, K, V> {
    m: &'a BTreeMap<K, V>,
    i: usize,
    end: usize,
}

impl<'a, K, V> Iterator for Iter<'a, K, V> {
    type Item = (&'a K, &'a V);

    fn next(&mut self) -> Option<Self::Item> {
        if self.i >= self.end || self.i >= CAP {
            return None;
        }
        let r = match &self.m.slots[self.i] {
            Some((k, v)) => Some((k, v)),
            None => None,
        };
        self.i += 1;
        r
    }

    fn last(self) -> Option<Self::Item> {
        if self.i >= self.end || self.end == 0 || self.end > CAP {
            return None;
        }
        match &self.m.slots[self.end - 1] {
            Some((k, v)) => Some((k, v)),
            None => None,
        }
    }
}

impl<'a, K, V> DoubleEndedIterator for Iter<'a, K, V> {
    fn next_back(&mut self) -> Option<Self::Item> {
        if self.i >= self.end || self.end == 0 || self.end > CAP {
            return None;
        }
        self.end -= 1;
        match &self.m.slots[self.end] {
            Some((k, v)) => Some((k, v)),
            None => None,
        }
    }
}

pub(crate) struct Values<'a, K, V> {
    it: Iter<'a, K, V>,
}

impl<'a, K, V> Iterator for Values<'a, K, V> {
    type Item = &'a V;
    fn next(&mut self) -> Option<Self::Item> {
        self.it.next().map(|kv| kv.1)
    }
}

pub(crate) struct Keys<'a, K, V> {
    it: Iter<'a, K, V>,
}

impl<'a, K, V> Iterator for Keys<'a, K, V> {
    type Item = &'a K;
    fn next(&mut self) -> Option<Self::Item> {
        self.it.next().map(|kv| kv.0)
    }
}

impl<'a, K, V> IntoIterator for &'a BTreeMap<K, V> {
    type Item = (&'a K, &'a V);
    type IntoIter = Iter<'a, K, V>;
    fn into_iter(self) -> Self::IntoIter {
        self.iter()
    }
}

// ---- harness-side construction / inspection (not part of std's API) ----
impl<K: Ord, V> BTreeMap<K, V> {
    /// Arbitrary map of `len <= 3` entries from candidate entries; the keys
    /// must be strictly increasing (assumed by the caller).
    pub(crate) fn from_sorted3(e0: (K, V), e1: (K, V), e2: (K, V), len: usize) -> Self {
        let mut m = Self::new();
        if len >= 1 {
            unsafe { core::ptr::write(&mut m.slots[0], Some(e0)) };
        } else {
            core::mem::forget(e0);
        }
        if len >= 2 {
            unsafe { core::ptr::write(&mut m.slots[1], Some(e1)) };
        } else {
            core::mem::forget(e1);
        }
        if len >= 3 {
            unsafe { core::ptr::write(&mut m.slots[2], Some(e2)) };
        } else {
            core::mem::forget(e2);
        }
        m.len = if len > 3 { 3 } else { len };
        m
    }

    /// keys strictly increasing and packed: the representation invariant
    pub(crate) fn well_formed(&self) -> bool {
        let mut ok = self.len <= CAP;
        let mut i = 0;
        while i < CAP {
            if i < self.len {
                ok = ok && self.slots[i].is_some();
                if i + 1 < self.len {
                    if let (Some(a), Some(b)) = (&self.slots[i], &self.slots[i + 1]) {
                        ok = ok && a.0 < b.0;
                    }
                }
            } else {
                ok = ok && self.slots[i].is_none();
            }
            i += 1;
        }
        ok
    }
}
