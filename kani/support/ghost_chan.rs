//! Ghost replacement for the request channel between `RaftLogWAL` and
//! `FlushWorker` (DESIGN.md §3.3/§3.4): a fixed-array FIFO shared through an
//! `Arc`. Swapped in by import substitution in wal/mod.rs, wal/flush_request.rs
//! and wal/flush_worker.rs. `recv` and `try_recv` are the scheduling points of
//! the sequentialised caller/worker model.
//!
//! Concreteness discipline: CBMC's symbolic execution does not keep values
//! that travel through heap memory concrete. The queue *indices* and a
//! per-item *variant tag* therefore live in typed global statics, and `recv`
//! rebuilds the item with a concrete enum variant (`GhostItem::rebuild`), so
//! the worker's `match` on the request kind follows one arm.

use core::cell::UnsafeCell;
use std::sync::Arc;
pub(crate) use std::sync::mpsc::RecvError;
pub(crate) use std::sync::mpsc::SendError;
pub(crate) use std::sync::mpsc::TryRecvError;

pub(crate) const QCAP: usize = 8;
/// number of channels with static bookkeeping (request channel = id 0)
const NCH: usize = 2;

static mut CREATED: usize = 0;
static mut HEAD: [usize; NCH] = [0; NCH];
static mut TAIL: [usize; NCH] = [0; NCH];
static mut TAGS: [[u8; QCAP]; NCH] = [[0; QCAP]; NCH];

/// Script mode (worker-only harnesses): the requests are not queued by a
/// caller; `recv`/`try_recv` *build* the next request of a concrete script at
/// the moment it is received. An item that went through the heap queue has
/// lost its concrete variant for symbolic execution (the variant of
/// `WorkerRequest` is niche-encoded in payload bytes), and `run_inner` would
/// then be explored for every request kind at every step.
pub(crate) mod script {
    #[derive(Clone, Copy)]
    pub(crate) struct Step {
        /// 0 AppendFile, 1 RemoveChunks, 2 Write
        pub kind: u8,
        /// Write: data length
        pub d: u8,
        /// Write: carries a callback
        pub cb: bool,
        /// AppendFile: ghost slot of the new file; RemoveChunks: first path
        pub slot: u8,
        /// RemoveChunks: optional second path (0xff = none)
        pub slot2: u8,
        /// Write: upto_offset; AppendFile: starting offset
        pub off: u64,
    }
    pub(crate) const STEP0: Step = Step { kind: 2, d: 0, cb: false, slot: 0, slot2: 0xff, off: 0 };
    pub(crate) static mut ON: bool = false;
    pub(crate) static mut STEPS: [Step; super::NREQ] = [STEP0; super::NREQ];
    pub(crate) static mut N: usize = 0;
    pub(crate) static mut PC: usize = 0;

    pub(crate) fn step(i: usize) -> Step {
        unsafe { STEPS[i] }
    }
    pub(crate) fn remaining() -> usize {
        unsafe { N - PC }
    }
}

/// Items that can travel through the ghost channel.
pub(crate) trait GhostItem: Sized {
    /// script mode: build the i-th request of the script
    fn ghost_from_script(_i: usize) -> Option<Self> {
        None
    }
    /// small integer naming the enum variant (read when the item is sent,
    /// i.e. when its discriminant is still a constant for symbolic execution)
    fn ghost_tag(&self) -> u8 {
        0
    }
    /// the same value, rebuilt with the variant named by the concrete `tag`
    fn ghost_rebuild(self, _tag: u8) -> Self {
        self
    }
}

impl GhostItem for Vec<crate::raft_log::wal::flush_request::FlushStat> {}

struct Q<T> {
    /// MaybeUninit: no drop glue (items still queued at the end of a run are
    /// leaked, like everything else in a harness) and no Option discriminant to
    /// test when an item is taken out (a discriminant read back from the heap
    /// is symbolic: two paths, and the merged item loses its concrete variant)
    items: [core::mem::MaybeUninit<T>; QCAP],
}

pub(crate) struct Chan<T> {
    id: usize,
    q: UnsafeCell<Q<T>>,
}

unsafe impl<T: Send> Send for Chan<T> {}
unsafe impl<T: Send> Sync for Chan<T> {}

// `id` is kept in the handles (by value) and not only behind the Arc: values
// read back from heap memory are not constants for symbolic execution.
pub(crate) struct SyncSender<T> {
    id: usize,
    ch: Arc<Chan<T>>,
}

pub(crate) struct Receiver<T> {
    id: usize,
    ch: Arc<Chan<T>>,
}

impl<T> Clone for SyncSender<T> {
    fn clone(&self) -> Self {
        Self { id: self.id, ch: self.ch.clone() }
    }
}

impl<T> core::fmt::Debug for SyncSender<T> {
    fn fmt(&self, f: &mut core::fmt::Formatter<'_>) -> core::fmt::Result {
        f.write_str("GhostSyncSender")
    }
}

impl<T> core::fmt::Debug for Receiver<T> {
    fn fmt(&self, f: &mut core::fmt::Formatter<'_>) -> core::fmt::Result {
        f.write_str("GhostReceiver")
    }
}

pub(crate) fn sync_channel<T>(_bound: usize) -> (SyncSender<T>, Receiver<T>) {
    let id = unsafe {
        let id = CREATED;
        CREATED += 1;
        if id < NCH {
            HEAD[id] = 0;
            TAIL[id] = 0;
        }
        id
    };
    #[cfg(kani)]
    kani::assume(id < NCH);
    let ch = Arc::new(Chan {
        id,
        q: UnsafeCell::new(Q {
            items: [const { core::mem::MaybeUninit::uninit() }; QCAP],
        }),
    });
    (SyncSender { id, ch: ch.clone() }, Receiver { id, ch })
}

/// harness side: variant tag of the i-th item ever sent on channel `id`
pub(crate) fn tag_at(id: usize, i: usize) -> u8 {
    unsafe { TAGS[id][i] }
}

/// harness side: forget all channels (a harness that opens a second store)
pub(crate) fn reset_channels() {
    unsafe {
        CREATED = 0;
    }
}

impl<T: GhostItem> Chan<T> {
    #[allow(clippy::mut_from_ref)]
    fn q(&self) -> &mut Q<T> {
        unsafe { &mut *self.q.get() }
    }

    fn push(&self, id: usize, t: T) {
        unsafe {
            let tail = TAIL[id];
            if tail >= QCAP {
                // more than QCAP requests in one run: outside the bound
                #[cfg(kani)]
                kani::assume(false);
                #[cfg(not(kani))]
                panic!("ghost channel capacity exceeded");
            }
            TAGS[id][tail] = t.ghost_tag();
            self.q().items[tail].write(t);
            TAIL[id] = tail + 1;
        }
    }

    fn pop(&self, id: usize) -> Option<T> {
        unsafe {
            let head = HEAD[id];
            if head >= TAIL[id] || head >= QCAP {
                return None;
            }
            let tag = TAGS[id][head];
            let t = self.q().items[head].assume_init_read();
            HEAD[id] = head + 1;
            Some(t.ghost_rebuild(tag))
        }
    }

}

fn pending(id: usize) -> usize {
    unsafe { TAIL[id] - HEAD[id] }
}

impl<T: GhostItem> SyncSender<T> {
    pub(crate) fn send(&self, t: T) -> Result<(), SendError<T>> {
        self.ch.push(self.id, t);
        Ok(())
    }

    /// number of items sent so far (harness side)
    pub(crate) fn ghost_sent(&self) -> usize {
        unsafe { TAIL[self.id] }
    }

    pub(crate) fn ghost_pending(&self) -> usize {
        pending(self.id)
    }
}

impl<T: GhostItem> Receiver<T> {
    /// Blocking receive. An empty queue means the script is over: reported as
    /// "channel closed" (all senders dropped), which ends `run_inner`.
    pub(crate) fn recv(&self) -> Result<T, RecvError> {
        unsafe {
            if script::ON {
                if script::PC >= script::N {
                    return Err(RecvError);
                }
                let i = script::PC;
                script::PC += 1;
                return match T::ghost_from_script(i) {
                    Some(t) => Ok(t),
                    None => Err(RecvError),
                };
            }
        }
        match self.ch.pop(self.id) {
            Some(t) => Ok(t),
            None => Err(RecvError),
        }
    }

    /// Non-blocking receive. May answer `Empty` although items are queued:
    /// that is the schedule in which the caller enqueues them a moment later.
    /// Which calls do so is fixed per harness by `sched::BREAK_MASK` (bit k =
    /// the k-th try_recv call of the run reports Empty); harnesses enumerate
    /// the masks.
    pub(crate) fn try_recv(&self) -> Result<T, TryRecvError> {
        unsafe {
            if script::ON {
                if script::PC >= script::N || sched::batch_break() {
                    return Err(TryRecvError::Empty);
                }
                let i = script::PC;
                script::PC += 1;
                return match T::ghost_from_script(i) {
                    Some(t) => Ok(t),
                    None => Err(TryRecvError::Empty),
                };
            }
        }
        if pending(self.id) == 0 {
            return Err(TryRecvError::Empty);
        }
        if sched::batch_break() {
            return Err(TryRecvError::Empty);
        }
        match self.ch.pop(self.id) {
            Some(t) => Ok(t),
            None => Err(TryRecvError::Empty),
        }
    }

    pub(crate) fn try_iter(&self) -> TryIter<'_, T> {
        TryIter { rx: self }
    }

    pub(crate) fn ghost_pending(&self) -> usize {
        pending(self.id)
    }
}

pub(crate) struct TryIter<'a, T> {
    rx: &'a Receiver<T>,
}

impl<T: GhostItem> Iterator for TryIter<'_, T> {
    type Item = T;
    fn next(&mut self) -> Option<T> {
        self.rx.try_recv().ok()
    }
}

/// Batch-boundary schedule.
pub(crate) mod sched {
    /// bit k set: the k-th try_recv call that finds a non-empty queue answers Empty
    pub(crate) static mut BREAK_MASK: u32 = 0;
    pub(crate) static mut TRY_CALLS: u32 = 0;
    pub(crate) static mut BREAKS: u8 = 0;

    pub(crate) fn batch_break() -> bool {
        unsafe {
            let k = TRY_CALLS;
            TRY_CALLS += 1;
            if k < 32 && (BREAK_MASK >> k) & 1 == 1 {
                BREAKS += 1;
                return true;
            }
        }
        false
    }
}

// ---- callback log and monitors (no function pointers: CBMC would explore
// every function of the same signature at each indirect call) ----

pub(crate) const NREQ: usize = 8;
pub(crate) const NF: usize = crate::kani_support::ghost_fs::NFILES;

pub(crate) struct Mon {
    /// C04/C08 monitors enabled
    pub on: bool,
    /// per request index: bytes that must be durable in each file once that
    /// request is acknowledged (everything journalled at or before it)
    pub need: [[u64; NF]; NREQ],
    /// request index of the Write queued just before the RemoveChunks
    pub last_w_before_r: usize,
    pub last_cb: i16,
    pub n_cb: u8,
    pub n_ok: u8,
}

pub(crate) static mut MON: Mon = Mon {
    on: false,
    need: [[0; NF]; NREQ],
    last_w_before_r: 0,
    last_cb: -1,
    n_cb: 0,
    n_ok: 0,
};

#[allow(static_mut_refs)]
pub(crate) fn mon() -> &'static mut Mon {
    unsafe { &mut MON }
}

/// ghost truth: everything request `j` stands for is written and covered by a
/// successful sync
pub(crate) fn need_ok(j: usize) -> bool {
    let g = crate::kani_support::ghost_fs::fs();
    let m = mon();
    let mut ok = true;
    let mut f = 0;
    while f < NF {
        if m.need[j][f] > 0 && g.files[f].exists {
            ok = ok && g.files[f].len >= m.need[j][f] && g.files[f].synced_len >= m.need[j][f];
        }
        f += 1;
    }
    ok
}

/// called by GhostCb::send
pub(crate) fn cb_fire(id: u8, ok: bool) {
    let m = mon();
    m.n_cb += 1;
    if ok {
        m.n_ok += 1;
    }
    if m.on {
        // C04 (2),(3): at most once, in request order (ids strictly increase)
        assert!((id as i16) > m.last_cb, "callbacks fire at most once and in request order");
        m.last_cb = id as i16;
        if ok {
            // C04 (1),(5)
            assert!(
                need_ok(id as usize),
                "Ok callback although journalled bytes are not durably synced"
            );
        }
    }
}

/// called by the remove_file stub before the unlink takes effect
pub(crate) fn unlink_monitor(slot: usize) {
    let m = mon();
    if !m.on {
        return;
    }
    // C08: the purge record travels in the Write queued just before the
    // RemoveChunks: it must be written and successfully synced
    assert!(
        need_ok(m.last_w_before_r),
        "chunk unlinked although the purge is not durably recorded"
    );
    let g = crate::kani_support::ghost_fs::fs();
    let mut f = 0;
    while f < NF {
        if f != slot && g.files[f].exists && g.files[slot].exists {
            assert!(g.files[f].chunk_id > g.files[slot].chunk_id, "unlink is not oldest-first");
        }
        f += 1;
    }
}

pub(crate) fn cb_count() -> usize {
    mon().n_cb as usize
}
