//! Monomorphic instantiations of `Types` used by the harnesses.
use std::io;

use crate::Types;
use crate::raft_log::wal::callback::Callback;

/// Payload with an explicit small length; encodes as 1 length byte + `n` bytes.
#[derive(Debug, Clone, Copy, PartialEq, Eq, Default)]
pub(crate) struct P {
    pub n: u8,
    pub b: u8,
}

pub(crate) const P_MAX: u8 = 3;

// Both directions move one byte per call so that every read/write has a
// concrete size for CBMC (a symbolic-length memcpy + CRC update is what makes
// variable-length payloads expensive); only the *number* of calls is symbolic.
impl codeq::Encode for P {
    fn encode<W: io::Write>(&self, mut w: W) -> Result<usize, io::Error> {
        w.write_all(&[self.n])?;
        let mut i = 0u8;
        while i < P_MAX {
            if i < self.n {
                w.write_all(&[self.b])?;
            }
            i += 1;
        }
        Ok(1 + self.n.min(P_MAX) as usize)
    }
}

impl codeq::Decode for P {
    fn decode<R: io::Read>(mut r: R) -> Result<Self, io::Error> {
        let mut one = [0u8; 1];
        r.read_exact(&mut one)?;
        let n = one[0];
        if n > P_MAX {
            return Err(io::Error::from(io::ErrorKind::InvalidData));
        }
        let mut b = 0u8;
        let mut i = 0u8;
        while i < P_MAX {
            if i < n {
                r.read_exact(&mut one)?;
                if i > 0 && one[0] != b {
                    return Err(io::Error::from(io::ErrorKind::InvalidData));
                }
                b = one[0];
            }
            i += 1;
        }
        Ok(P { n, b })
    }
}

#[cfg(kani)]
impl kani::Arbitrary for P {
    fn any() -> Self {
        let n: u8 = kani::any();
        kani::assume(n <= P_MAX);
        let b: u8 = if n == 0 { 0 } else { kani::any() };
        P { n, b }
    }
}

/// Callback that records into ghost state (see ghost_chan::cb_log).
#[derive(Debug, Clone, Copy, PartialEq, Eq)]
pub(crate) struct GhostCb {
    pub id: u8,
}

impl Callback for GhostCb {
    fn send(self, res: Result<(), io::Error>) {
        crate::kani_support::ghost_chan::cb_fire(self.id, res.is_ok());
        core::mem::forget(res);
    }
}

/// Narrow instantiation: (term:u8, index:u8) ids.
#[derive(Debug, Clone, PartialEq, Eq, Default)]
pub(crate) struct KTypes;

impl Types for KTypes {
    type LogId = (u8, u8);
    type LogPayload = P;
    type Vote = (u8, u8);
    type Callback = GhostCb;
    type UserData = u8;

    fn log_index(log_id: &Self::LogId) -> u64 {
        log_id.1 as u64
    }

    fn payload_size(payload: &Self::LogPayload) -> u64 {
        payload.n as u64
    }
}

/// Wide instantiation: (term:u64, index:u64) ids, as in the repo's TestTypes.
#[derive(Debug, Clone, PartialEq, Eq, Default)]
pub(crate) struct WTypes;

impl Types for WTypes {
    type LogId = (u64, u64);
    type LogPayload = P;
    type Vote = (u64, u64);
    type Callback = GhostCb;
    type UserData = u8;

    fn log_index(log_id: &Self::LogId) -> u64 {
        log_id.1
    }

    fn payload_size(payload: &Self::LogPayload) -> u64 {
        payload.n as u64
    }
}

/// Wide ids + String payload / user data (exactly the repo's TestTypes shape).
#[derive(Debug, Clone, PartialEq, Eq, Default)]
pub(crate) struct STypes;

impl Types for STypes {
    type LogId = (u64, u64);
    type LogPayload = String;
    type Vote = (u64, u64);
    type Callback = GhostCb;
    type UserData = String;

    fn log_index(log_id: &Self::LogId) -> u64 {
        log_id.1
    }

    fn payload_size(payload: &Self::LogPayload) -> u64 {
        payload.len() as u64
    }
}

/// Payload for the `open` harnesses: same wire format as `P`, padded in memory
/// so that `Append` (not `State`) is the largest variant of `WALRecord`. With
/// `P`, rustc encodes the discriminant of `WALRecord<KTypes>` in the niche of an
/// Option tag inside the `State` variant, and CBMC cannot constant-fold the
/// discriminant of `Result<(Segment, WALRecord<_>), io::Error>` read from that
/// niche (measured: every `match` on the result of `RecordIterator::next` was
/// explored in all three arms). With an explicit tag byte it can.
#[derive(Debug, Clone, Copy, PartialEq, Eq, Default)]
pub(crate) struct PP {
    pub n: u8,
    pub b: u8,
    pub pad: [u8; 14],
}

impl PP {
    pub(crate) fn new(n: u8, b: u8) -> PP {
        PP { n, b, pad: [0; 14] }
    }
}

impl codeq::Encode for PP {
    fn encode<W: io::Write>(&self, w: W) -> Result<usize, io::Error> {
        P { n: self.n, b: self.b }.encode(w)
    }
}

impl codeq::Decode for PP {
    fn decode<R: io::Read>(r: R) -> Result<Self, io::Error> {
        let p = P::decode(r)?;
        Ok(PP::new(p.n, p.b))
    }
}

/// `KTypes` with the padded payload.
#[derive(Debug, Clone, PartialEq, Eq, Default)]
pub(crate) struct OTypes;

impl Types for OTypes {
    type LogId = (u8, u8);
    type LogPayload = PP;
    type Vote = (u8, u8);
    type Callback = GhostCb;
    type UserData = u8;

    fn log_index(log_id: &Self::LogId) -> u64 {
        log_id.1 as u64
    }

    fn payload_size(payload: &Self::LogPayload) -> u64 {
        payload.n as u64
    }
}
