//! Monomorphic instantiations of `Types` used by the harnesses.
use std::io;

use crate::Types;
use crate::raft_log::wal::callback::Callback;

/// Payload with an explicit small length; encodes as 1 length byte + `n` bytes.
///
/// `PAD` bytes of in-memory padding (never encoded) make `Append` the largest
/// variant of `WALRecord<T>`. Without it the largest variant is `State`, rustc
/// encodes the discriminant of `WALRecord` in the niche of an Option tag inside
/// that variant, and CBMC's symbolic execution can no longer constant-fold a
/// `match` on a `WALRecord` or on `Result<(Segment, WALRecord), io::Error>`:
/// every such match was explored in all arms (measured: rotation 73 s symex and
/// out of memory -> 11 s; DESIGN.md section 3.5).
#[derive(Debug, Clone, Copy)]
pub(crate) struct PN<const PAD: usize> {
    pub n: u8,
    pub b: u8,
    pub pad: [u8; PAD],
}

/// unpadded payload: `KTypes`, `WTypes` (harnesses that inject a state and run
/// one operation; there the padding only costs - measured +40 % on C01)
pub(crate) type P = PN<0>;
/// padded payload of `RTypes` (State<(u8,u8)> is 14 bytes): harnesses that
/// replay chunk files or rotate chunks
pub(crate) type PR = PN<14>;

/// what the reference model needs from a payload type
pub(crate) trait Pay: Copy {
    fn nb(&self) -> (u8, u8);
    fn mk(n: u8, b: u8) -> Self;
}

impl<const PAD: usize> Pay for PN<PAD> {
    fn nb(&self) -> (u8, u8) {
        (self.n, self.b)
    }
    fn mk(n: u8, b: u8) -> Self {
        Self::new(n, b)
    }
}

/// the narrow instantiations, as far as the model is concerned
pub(crate) trait Narrow: Types<LogId = (u8, u8), Vote = (u8, u8), UserData = u8, LogPayload: Pay> {}
impl Narrow for KTypes {}
impl Narrow for RTypes {}

pub(crate) const P_MAX: u8 = 3;

impl<const PAD: usize> PN<PAD> {
    pub(crate) const fn new(n: u8, b: u8) -> Self {
        PN { n, b, pad: [0; PAD] }
    }
}

// the padding is not part of the value (a derived `==` would be a memcmp loop)
impl<const PAD: usize> PartialEq for PN<PAD> {
    fn eq(&self, o: &Self) -> bool {
        self.n == o.n && self.b == o.b
    }
}
impl<const PAD: usize> Eq for PN<PAD> {}

impl<const PAD: usize> Default for PN<PAD> {
    fn default() -> Self {
        Self::new(0, 0)
    }
}

// Both directions move one byte per call so that every read/write has a
// concrete size for CBMC (a symbolic-length memcpy + CRC update is what makes
// variable-length payloads expensive); only the *number* of calls is symbolic.
impl<const PAD: usize> codeq::Encode for PN<PAD> {
    fn encode<W: io::Write>(&self, mut w: W) -> Result<usize, io::Error> {
        w.write_all(&[self.n])?;
        let mut i = 0u8;
        while i < P_MAX {
            if i < self.n {
                w.write_all(&[self.b])?;
            }
            i += 1;
        }
        Ok(1 + self.n.min(P_MAX) as usize)
    }
}

impl<const PAD: usize> codeq::Decode for PN<PAD> {
    fn decode<R: io::Read>(mut r: R) -> Result<Self, io::Error> {
        let mut one = [0u8; 1];
        r.read_exact(&mut one)?;
        let n = one[0];
        if n > P_MAX {
            return Err(crate::kani_support::stubs::mk_err(io::ErrorKind::InvalidData));
        }
        let mut b = 0u8;
        let mut i = 0u8;
        while i < P_MAX {
            if i < n {
                r.read_exact(&mut one)?;
                // the padded instantiation accepts any bytes and keeps the last:
                // comparing two reads of the same symbolic byte is a branch
                // CBMC's symbolic execution does not fold, and its error arm
                // poisons the file position for everything that follows
                if PAD == 0 && i > 0 && one[0] != b {
                    return Err(crate::kani_support::stubs::mk_err(io::ErrorKind::InvalidData));
                }
                b = one[0];
            }
            i += 1;
        }
        Ok(Self::new(n, b))
    }
}

#[cfg(kani)]
impl<const PAD: usize> kani::Arbitrary for PN<PAD> {
    fn any() -> Self {
        let n: u8 = kani::any();
        kani::assume(n <= P_MAX);
        let b: u8 = if n == 0 { 0 } else { kani::any() };
        Self::new(n, b)
    }
}

/// Callback that records into ghost state (see ghost_chan::cb_log).
#[derive(Debug, Clone, Copy, PartialEq, Eq)]
pub(crate) struct GhostCb {
    pub id: u8,
}

impl Callback for GhostCb {
    fn send(self, res: Result<(), io::Error>) {
        crate::kani_support::ghost_chan::cb_fire(self.id, res.is_ok());
        core::mem::forget(res);
    }
}

/// Narrow instantiation: (term:u8, index:u8) ids.
#[derive(Debug, Clone, PartialEq, Eq, Default)]
pub(crate) struct KTypes;

impl Types for KTypes {
    type LogId = (u8, u8);
    type LogPayload = P;
    type Vote = (u8, u8);
    type Callback = GhostCb;
    type UserData = u8;

    fn log_index(log_id: &Self::LogId) -> u64 {
        log_id.1 as u64
    }

    fn payload_size(payload: &Self::LogPayload) -> u64 {
        payload.n as u64
    }
}

/// `KTypes` with the padded payload (see `PN`): replay and rotation harnesses.
#[derive(Debug, Clone, PartialEq, Eq, Default)]
pub(crate) struct RTypes;

impl Types for RTypes {
    type LogId = (u8, u8);
    type LogPayload = PR;
    type Vote = (u8, u8);
    type Callback = GhostCb;
    type UserData = u8;

    fn log_index(log_id: &Self::LogId) -> u64 {
        log_id.1 as u64
    }

    fn payload_size(payload: &Self::LogPayload) -> u64 {
        payload.n as u64
    }
}

/// Wide instantiation: (term:u64, index:u64) ids, as in the repo's TestTypes.
#[derive(Debug, Clone, PartialEq, Eq, Default)]
pub(crate) struct WTypes;

impl Types for WTypes {
    type LogId = (u64, u64);
    type LogPayload = P;
    type Vote = (u64, u64);
    type Callback = GhostCb;
    type UserData = u8;

    fn log_index(log_id: &Self::LogId) -> u64 {
        log_id.1
    }

    fn payload_size(payload: &Self::LogPayload) -> u64 {
        payload.n as u64
    }
}

/// Wide ids + String payload / user data (exactly the repo's TestTypes shape).
#[derive(Debug, Clone, PartialEq, Eq, Default)]
pub(crate) struct STypes;

impl Types for STypes {
    type LogId = (u64, u64);
    type LogPayload = String;
    type Vote = (u64, u64);
    type Callback = GhostCb;
    type UserData = String;

    fn log_index(log_id: &Self::LogId) -> u64 {
        log_id.1
    }

    fn payload_size(payload: &Self::LogPayload) -> u64 {
        payload.len() as u64
    }
}
