//! `kani::stub` replacement bodies (DESIGN.md §3.3). Each has the signature of
//! the function it replaces.

use std::fs::File;
use std::fs::Metadata;
use std::fs::OpenOptions;
use std::io;
use std::path::Path;
use std::sync::Arc;

use crate::ChunkId;
use crate::Config;
use crate::kani_support::ghost_fs as gfs;

/// crc32fast::Hasher::new -> baseline (table) implementation; the SIMD path
/// sits behind `cpuid` inline asm which Kani rejects.
pub(crate) fn crc_new() -> crc32fast::Hasher {
    crc32fast::Hasher::internal_new_baseline(0, 0)
}

/// alloc::fmt::format -> empty string (message text is never the subject)
pub(crate) fn fmt_format(_args: core::fmt::Arguments<'_>) -> String {
    String::new()
}

/// core::fmt::write -> nothing written, Ok(()). Covers `to_string()` /
/// `write!` into Strings on error paths (text is never the subject).
pub(crate) fn fmt_write(_out: &mut dyn core::fmt::Write, _args: core::fmt::Arguments<'_>) -> core::fmt::Result {
    Ok(())
}

/// `From<String> for Box<dyn Error + Send + Sync>` -> a boxed zero-sized
/// error. This is the conversion inside `io::Error::new(kind, msg_string)`;
/// raft-log only ever inspects `kind()`. Effect on the encoding: the only type
/// coerced to `dyn Error + Send + Sync` in reachable code is `ZErr`, so the
/// dynamic drop inside io::Error's drop glue has one trivial callee (otherwise
/// CBMC unrolls a recursion through every Error type at every `?`).
#[derive(Debug)]
pub(crate) struct ZErr;
impl core::fmt::Display for ZErr {
    fn fmt(&self, _f: &mut core::fmt::Formatter<'_>) -> core::fmt::Result {
        Ok(())
    }
}
impl std::error::Error for ZErr {}

pub(crate) fn box_err_from_string(s: String) -> Box<dyn std::error::Error + Send + Sync> {
    core::mem::forget(s);
    Box::new(ZErr)
}

pub(crate) fn box_err_from_str<'a>(_s: &'a str) -> Box<dyn std::error::Error + Send + Sync> {
    Box::new(ZErr)
}

pub(crate) fn file_write<'a>(this: &mut &'a File, buf: &[u8]) -> io::Result<usize>
where 'a: 'a {
    gfs::op_write(gfs::slot_of_file(this), buf)
}

pub(crate) fn file_read<'a>(this: &mut &'a File, buf: &mut [u8]) -> io::Result<usize>
where 'a: 'a {
    gfs::op_read(gfs::slot_of_file(this), buf)
}

pub(crate) fn file_sync_data(this: &File) -> io::Result<()> {
    gfs::op_sync(gfs::slot_of_file(this))
}

pub(crate) fn file_sync_all(this: &File) -> io::Result<()> {
    gfs::op_sync(gfs::slot_of_file(this))
}

pub(crate) fn file_set_len(this: &File, size: u64) -> io::Result<()> {
    gfs::op_set_len(gfs::slot_of_file(this), size)
}

pub(crate) fn file_metadata(this: &File) -> io::Result<Metadata> {
    gfs::fs().last_meta = gfs::slot_of_file(this);
    Ok(unsafe { core::mem::zeroed() })
}

pub(crate) fn metadata_len(_this: &Metadata) -> u64 {
    gfs::op_len(gfs::fs().last_meta)
}

pub(crate) fn file_read_at(this: &File, buf: &mut [u8], offset: u64) -> io::Result<usize> {
    gfs::op_read_at(gfs::slot_of_file(this), buf, offset)
}

pub(crate) fn remove_file<P: AsRef<Path>>(path: P) -> io::Result<()> {
    gfs::op_unlink(gfs::slot_of_path(path.as_ref().as_os_str().as_encoded_bytes()))
}

/// OpenOptions::open is only reached from OpenChunk::create (create_new).
pub(crate) fn open_options_open<P: AsRef<Path>>(_this: &OpenOptions, path: P) -> io::Result<File> {
    gfs::op_create(gfs::slot_of_path(path.as_ref().as_os_str().as_encoded_bytes()))
}

pub(crate) fn chunk_path(_this: &Config, chunk_id: ChunkId) -> String {
    gfs::path_of_slot(gfs::slot_for_chunk(chunk_id.0))
}

pub(crate) fn open_chunk_file<T>(_config: &Config, chunk_id: ChunkId) -> Result<File, io::Error> {
    if let Some(s) = unsafe { gfs::FORCE_SLOT } {
        return gfs::op_open(s);
    }
    match gfs::find_chunk(chunk_id.0) {
        Some(s) => gfs::op_open(s),
        None => Err(mk_err(io::ErrorKind::NotFound)),
    }
}

/// crc32fast::Hasher::update -> no-op: every checksum is the CRC of the empty
/// string (0). Only for harnesses whose property does not depend on checksums.
pub(crate) fn crc_update_noop(_this: &mut crc32fast::Hasher, _buf: &[u8]) {}

/// `<core::io::CustomOwner as Drop>::drop` -> no-op (leak). In this std the
/// owner of a boxed custom io::Error payload drops it through a stored
/// function pointer; CBMC resolves that indirect call to every function of
/// the same type, which turns each `?` into a recursion through all drop
/// glue. Leaking custom error payloads has no observable effect on raft-log.
pub(crate) fn custom_owner_drop(_this: &mut core::io::CustomOwner) {}

// ---- C13: ghost flock table (kernel contract: one holder per lock-file INODE) ----
// flock locks belong to the inode behind an open file description. Unlinking
// the LOCK path and creating it again yields a different inode whose lock is
// free - which is why the table is keyed by inode, not by path.
pub(crate) const MAX_LOCK_FDS: usize = 6;
/// holder (fd) of the flock on each inode
pub(crate) static mut INODE_HOLDER: [Option<i32>; MAX_LOCK_FDS] = [None; MAX_LOCK_FDS];
/// inode the LOCK path currently names (a fresh one after an unlink)
pub(crate) static mut LOCK_PATH_INODE: usize = 0;
/// inode behind each lock fd
pub(crate) static mut FD_INODE: [usize; MAX_LOCK_FDS] = [0; MAX_LOCK_FDS];
pub(crate) static mut FLOCK_ATTEMPTS: u8 = 0;
pub(crate) static mut LOCK_OPENS: u8 = 0;
pub(crate) static mut LOCK_UNLINKS: u8 = 0;
/// the directory is owned by somebody outside the harness (inode 0 held by fd 999)
pub(crate) fn foreign_owner() {
    unsafe { INODE_HOLDER[0] = Some(999) };
}

fn lock_fd_index(f: &File) -> usize {
    use std::os::fd::AsRawFd;
    let i = (f.as_raw_fd() - gfs::LOCK_FD_BASE) as usize;
    #[cfg(kani)]
    kani::assume(i < MAX_LOCK_FDS);
    i
}

/// OpenOptions::open for the LOCK file (create + open): a new fd for every
/// open, bound to the inode the path names now
pub(crate) fn open_lock_file<P: AsRef<Path>>(_this: &OpenOptions, _path: P) -> io::Result<File> {
    use std::os::fd::FromRawFd;
    unsafe {
        let idx = LOCK_OPENS as usize;
        if idx >= MAX_LOCK_FDS {
            #[cfg(kani)]
            kani::assume(false);
        }
        FD_INODE[idx] = LOCK_PATH_INODE;
        let fd = gfs::LOCK_FD_BASE + idx as i32;
        LOCK_OPENS += 1;
        Ok(File::from_raw_fd(fd))
    }
}

/// std::fs::remove_file in the C13 harnesses = unlink of the LOCK path: the
/// path names a fresh inode from now on (open file descriptions keep the old one)
pub(crate) fn remove_lock_file<P: AsRef<Path>>(_path: P) -> io::Result<()> {
    unsafe {
        LOCK_UNLINKS += 1;
        LOCK_PATH_INODE += 1;
        if LOCK_PATH_INODE >= MAX_LOCK_FDS {
            #[cfg(kani)]
            kani::assume(false);
        }
    }
    Ok(())
}

pub(crate) fn try_lock_exclusive(this: &File) -> io::Result<()> {
    use std::os::fd::AsRawFd;
    unsafe {
        FLOCK_ATTEMPTS += 1;
        let ino = FD_INODE[lock_fd_index(this)];
        match INODE_HOLDER[ino] {
            Some(_) => Err(io::Error::from(io::ErrorKind::WouldBlock)),
            None => {
                INODE_HOLDER[ino] = Some(this.as_raw_fd());
                Ok(())
            }
        }
    }
}

pub(crate) fn flock_unlock(this: &File) -> io::Result<()> {
    use std::os::fd::AsRawFd;
    unsafe {
        let fd = this.as_raw_fd();
        let idx = (fd - gfs::LOCK_FD_BASE) as usize;
        if idx < MAX_LOCK_FDS {
            let ino = FD_INODE[idx];
            if INODE_HOLDER[ino] == Some(fd) {
                INODE_HOLDER[ino] = None;
            }
        }
    }
    Ok(())
}

/// `<OwnedFd as Drop>::drop` -> no close(2) (a foreign function); the kernel
/// would release the flock of this open file description on close
pub(crate) fn owned_fd_drop(this: &mut std::os::fd::OwnedFd) {
    use std::os::fd::AsRawFd;
    unsafe {
        let fd = this.as_raw_fd();
        let idx = (fd - gfs::LOCK_FD_BASE) as usize;
        if fd >= gfs::LOCK_FD_BASE && idx < MAX_LOCK_FDS {
            let ino = FD_INODE[idx];
            if INODE_HOLDER[ino] == Some(fd) {
                INODE_HOLDER[ino] = None;
            }
        }
    }
}

/// number of inodes whose flock is held right now (> 1 = two owners of one directory)
pub(crate) fn flock_holders() -> usize {
    let mut n = 0;
    let mut i = 0;
    while i < MAX_LOCK_FDS {
        if unsafe { INODE_HOLDER[i] }.is_some() {
            n += 1;
        }
        i += 1;
    }
    n
}

/// holder of the flock on the first LOCK inode (the one the first owner locked)
pub(crate) fn flock_holder() -> Option<i32> {
    unsafe { INODE_HOLDER[0] }
}

/// `<io::Error as Display>::fmt` / `Debug::fmt` -> nothing written. `to_string()`
/// on an io::Error otherwise dispatches dynamically into the Display/Debug
/// impls of every error type (pretty-printing machinery included).
pub(crate) fn io_error_display(_this: &io::Error, _f: &mut core::fmt::Formatter<'_>) -> core::fmt::Result {
    Ok(())
}

/// `Vec::with_capacity(n)` -> `Vec::new()`: capacity is only a hint, but
/// `run_inner` pre-allocates its batch vector with capacity 1024 (a 57 KB heap
/// object that CBMC flattens into the formula at every access).
pub(crate) fn vec_with_capacity<T>(_capacity: usize) -> Vec<T> {
    Vec::new()
}

// ---- Config accessors as ghost constants ----
// A `Config` always sits behind an `Arc`; a field read back from that heap
// object is not a constant for CBMC's symbolic execution, and every branch on
// it (BufReader's buffer bypass, "truncation enabled?") is then explored both
// ways together with all drop glue behind it. Harnesses that need a *chosen*
// configuration stub the accessor by a ghost constant and tie it to the real
// field with an assumption; the accessors themselves (field or default) are
// checked by c10_cfg_truncate_accessor and c11_cfg_accessors.
pub(crate) static mut CFG_READ_BUF: usize = 64;
pub(crate) static mut CFG_TRUNCATE: bool = true;
pub(crate) static mut CFG_MAX_RECORDS: usize = 1024 * 1024;
pub(crate) static mut CFG_MAX_SIZE: usize = 1024 * 1024 * 1024;
pub(crate) static mut CFG_CACHE_ITEMS: usize = 100_000;
pub(crate) static mut CFG_CACHE_CAP: usize = 1024 * 1024 * 1024;

/// record the configuration a harness chose (the ghost constants default to
/// raft-log's documented defaults)
pub(crate) fn cfg_set(c: &Config) {
    unsafe {
        CFG_READ_BUF = c.read_buffer_size.unwrap_or(64 * 1024 * 1024);
        CFG_TRUNCATE = c.truncate_incomplete_record.unwrap_or(true);
        CFG_MAX_RECORDS = c.chunk_max_records.unwrap_or(1024 * 1024);
        CFG_MAX_SIZE = c.chunk_max_size.unwrap_or(1024 * 1024 * 1024);
        CFG_CACHE_ITEMS = c.log_cache_max_items.unwrap_or(100_000);
        CFG_CACHE_CAP = c.log_cache_capacity.unwrap_or(1024 * 1024 * 1024);
    }
}

pub(crate) fn cfg_read_buffer_size(this: &Config) -> usize {
    let v = unsafe { CFG_READ_BUF };
    #[cfg(kani)]
    kani::assume(this.read_buffer_size.unwrap_or(64 * 1024 * 1024) == v);
    v
}

pub(crate) fn cfg_truncate_incomplete_record(this: &Config) -> bool {
    let v = unsafe { CFG_TRUNCATE };
    #[cfg(kani)]
    kani::assume(this.truncate_incomplete_record.unwrap_or(true) == v);
    v
}

pub(crate) fn cfg_chunk_max_records(this: &Config) -> usize {
    let v = unsafe { CFG_MAX_RECORDS };
    #[cfg(kani)]
    kani::assume(this.chunk_max_records.unwrap_or(1024 * 1024) == v);
    v
}

pub(crate) fn cfg_chunk_max_size(this: &Config) -> usize {
    let v = unsafe { CFG_MAX_SIZE };
    #[cfg(kani)]
    kani::assume(this.chunk_max_size.unwrap_or(1024 * 1024 * 1024) == v);
    v
}

pub(crate) fn cfg_log_cache_max_items(this: &Config) -> usize {
    let v = unsafe { CFG_CACHE_ITEMS };
    #[cfg(kani)]
    kani::assume(this.log_cache_max_items.unwrap_or(100_000) == v);
    v
}

pub(crate) fn cfg_log_cache_capacity(this: &Config) -> usize {
    let v = unsafe { CFG_CACHE_CAP };
    #[cfg(kani)]
    kani::assume(this.log_cache_capacity.unwrap_or(1024 * 1024 * 1024) == v);
    v
}

// ---- io::Error::kind() from ghost state ----
// std packs an io::Error into a tagged pointer; `kind()` recovers the variant
// from the low bits of a pointer *address*, which is not a constant for CBMC:
// every `kind()` call is then explored for all four representations and
// `io_err.kind() == UnexpectedEof` in `handle_record_error` becomes symbolic
// (both outcomes explored, `truncate` symbolic, the file length after
// `set_len` symbolic, ...). The only distinction raft-log ever makes is
// "UnexpectedEof or not", and in the replayed code an UnexpectedEof error has
// exactly one origin: std's `read_exact` meeting a 0-byte read. The replay
// harnesses therefore answer `kind()` from ghost state: the ghost file system
// raises EOF_SEEN when a sequential read of a non-empty buffer returns 0
// bytes (and records the kind of the errors it creates itself); opening a
// chunk file clears it. `io::Error::new(e.kind(), ..)` (the `context`
// wrappers) preserves the answer. (`io::Error::new` itself cannot be stubbed:
// it is an incoherent inherent impl in alloc that Kani's resolver does not
// find.)
pub(crate) static mut EOF_SEEN: bool = false;
pub(crate) static mut LAST_ERR: io::ErrorKind = io::ErrorKind::InvalidData;

pub(crate) fn mk_err(kind: io::ErrorKind) -> io::Error {
    unsafe {
        LAST_ERR = kind;
        EOF_SEEN = false;
    }
    io::Error::from(kind)
}

pub(crate) fn reset_err() {
    unsafe {
        LAST_ERR = io::ErrorKind::InvalidData;
        EOF_SEEN = false;
    }
}

pub(crate) fn io_error_kind(_this: &io::Error) -> io::ErrorKind {
    unsafe {
        if EOF_SEEN {
            io::ErrorKind::UnexpectedEof
        } else {
            LAST_ERR
        }
    }
}

/// `vec![x; n]` (alloc::vec::from_elem) -> at most 8 elements. Used by ONE unit
/// harness of `Chunk::verify_trailing_zeros`, whose scan buffer is
/// `vec![0u8; 1024]`: the block-wise logic (several `read_at` calls, a verdict
/// per block) is then exercised with 8-byte blocks on a 20-byte tail instead of
/// needing files above 1 KiB. The function's behaviour is parametric in the
/// block size; the claim is for block size 8.
pub(crate) fn vec_from_elem_block8<T: Clone>(elem: T, n: usize) -> Vec<T> {
    let m = if n > 8 { 8 } else { n };
    let mut v = Vec::new();
    let mut i = 0;
    while i < m {
        v.push(elem.clone());
        i += 1;
    }
    v
}
