//! Ghost file system (DESIGN.md §3.5): what raft-log's file-system calls did,
//! kept in global ghost state. Files are identified by small integers; a
//! `File` value is fabricated from the fd number `FD_BASE + slot`.

use std::fs::File;
use std::io;
use std::os::fd::AsRawFd;
use std::os::fd::FromRawFd;

pub(crate) const NFILES: usize = 4;
pub(crate) const FBYTES: usize = 96;
pub(crate) const FD_BASE: i32 = 100;
/// the LOCK file of the directory uses its own fd range (one per open)
pub(crate) const LOCK_FD_BASE: i32 = 200;

#[derive(Clone, Copy)]
pub(crate) struct GFile {
    /// a ghost slot is bound to a chunk id once `chunk_path` was asked for it
    pub used: bool,
    /// directory entry present
    pub exists: bool,
    pub chunk_id: u64,
    /// current file length
    pub len: u64,
    /// fd cursor shared by sequential read and write (one fd per file)
    pub pos: u64,
    /// length covered by the last *successful* fdatasync/fsync
    pub synced_len: u64,
    pub n_write: u8,
    pub n_sync_ok: u8,
    pub n_sync_err: u8,
    pub n_set_len: u8,
    pub n_open: u8,
    /// event stamp of the last successful sync
    pub last_sync_stamp: u16,
}

/// File contents, kept apart from the bookkeeping struct: an update of
/// `files[slot].len` with a symbolic slot would otherwise drag 4 x 96 bytes
/// through every array-update expression of the formula.
pub(crate) static mut BYTES: [[u8; FBYTES]; NFILES] = [[0; FBYTES]; NFILES];

#[allow(static_mut_refs)]
pub(crate) fn bytes(slot: usize) -> &'static mut [u8; FBYTES] {
    unsafe { &mut BYTES[slot] }
}

pub(crate) const GFILE0: GFile = GFile {
    used: false,
    exists: false,
    chunk_id: 0,
    len: 0,
    pos: 0,
    synced_len: 0,
    n_write: 0,
    n_sync_ok: 0,
    n_sync_err: 0,
    n_set_len: 0,
    n_open: 0,
    last_sync_stamp: 0,
};

pub(crate) struct GFs {
    pub files: [GFile; NFILES],
    /// keep file contents (needed when data is read back)
    pub track_bytes: bool,
    /// with track_bytes: do not store the bytes of *writes* (only lengths).
    /// Set by the image builder: replay harnesses read what the image holds,
    /// never what the code under test writes, and the byte-copy loop of a
    /// 27-byte head record would force a large unwinding bound on every loop.
    pub skip_write_bytes: bool,
    /// write/sync calls may fail symbolically (at most max_faults times)
    pub faults: bool,
    pub n_faults: u8,
    pub max_faults: u8,
    /// concrete fault schedule: bit k set = the k-th faultable call (write or
    /// sync, counted from 0) fails. Concrete schedules keep io::Error values
    /// out of symbolic merges (their drop glue is what explodes otherwise).
    pub fault_mask: u32,
    pub fault_calls: u32,
    /// monotonically increasing event counter (every fs call)
    pub stamp: u16,
    /// number of unlink calls
    pub n_unlink: u8,
    /// slot of the file whose metadata was requested last
    pub last_meta: usize,
    /// order in which files were unlinked
    pub unlinked: [u8; NFILES],
}

pub(crate) static mut FS: GFs = GFs {
    files: [GFILE0; NFILES],
    track_bytes: false,
    skip_write_bytes: false,
    faults: false,
    n_faults: 0,
    max_faults: 0,
    fault_mask: 0,
    fault_calls: 0,
    stamp: 0,
    n_unlink: 0,
    last_meta: 0,
    unlinked: [0xff; NFILES],
};


#[allow(static_mut_refs)]
pub(crate) fn fs() -> &'static mut GFs {
    unsafe { &mut FS }
}

fn tick() {
    let g = fs();
    g.stamp += 1;
}

pub(crate) fn slot_of_fd(fd: i32) -> usize {
    let s = (fd - FD_BASE) as usize;
    #[cfg(kani)]
    kani::assume(s < NFILES);
    s
}

/// When set, every File maps to this ghost slot. A `File` normally sits behind
/// an `Arc`, and an fd read back from heap memory is not a constant for
/// symbolic execution; single-file harnesses pin the slot instead.
pub(crate) static mut FORCE_SLOT: Option<usize> = None;

pub(crate) fn slot_of_file(f: &File) -> usize {
    if let Some(s) = unsafe { FORCE_SLOT } {
        return s;
    }
    slot_of_fd(f.as_raw_fd())
}

pub(crate) fn mk_file(slot: usize) -> File {
    unsafe { File::from_raw_fd(FD_BASE + slot as i32) }
}

/// Find the ghost slot bound to `chunk_id`, binding a fresh one if needed.
pub(crate) fn slot_for_chunk(chunk_id: u64) -> usize {
    let g = fs();
    let mut i = 0;
    while i < NFILES {
        if g.files[i].used && g.files[i].chunk_id == chunk_id {
            return i;
        }
        i += 1;
    }
    let mut i = 0;
    while i < NFILES {
        if !g.files[i].used {
            g.files[i].used = true;
            g.files[i].chunk_id = chunk_id;
            return i;
        }
        i += 1;
    }
    // more than NFILES chunk files in one run: outside the bound
    #[cfg(kani)]
    kani::assume(false);
    0
}

pub(crate) fn find_chunk(chunk_id: u64) -> Option<usize> {
    let g = fs();
    let mut i = 0;
    while i < NFILES {
        if g.files[i].used && g.files[i].chunk_id == chunk_id {
            return Some(i);
        }
        i += 1;
    }
    None
}

pub(crate) fn path_of_slot(slot: usize) -> String {
    let c = match slot {
        0 => "a",
        1 => "b",
        2 => "c",
        _ => "d",
    };
    String::from(c)
}

pub(crate) fn slot_of_path(b: &[u8]) -> usize {
    if b.is_empty() {
        #[cfg(kani)]
        kani::assume(false);
        return 0;
    }
    let s = (b[0].wrapping_sub(b'a')) as usize;
    #[cfg(kani)]
    kani::assume(s < NFILES);
    s
}

fn maybe_fault() -> bool {
    {
        let g = fs();
        let k = g.fault_calls;
        g.fault_calls += 1;
        if k < 32 && (g.fault_mask >> k) & 1 == 1 {
            g.n_faults += 1;
            return true;
        }
    }
    #[cfg(kani)]
    {
        let g = fs();
        if g.faults && g.n_faults < g.max_faults {
            let f: bool = kani::any();
            if f {
                g.n_faults += 1;
                return true;
            }
        }
    }
    false
}

fn io_fault() -> io::Error {
    // simple (non-boxed) error: cheap drop glue
    crate::kani_support::stubs::mk_err(io::ErrorKind::Other)
}

/// Builds a file image directly in the ghost bytes (no syscall counters, no
/// faults): used with the real encoder to lay down records whose tags and
/// lengths stay constants for symbolic execution.
pub(crate) struct GhostWriter {
    pub slot: usize,
    pub pos: usize,
}

impl io::Write for GhostWriter {
    fn write(&mut self, buf: &[u8]) -> io::Result<usize> {
        let n = buf.len();
        let mut i = 0;
        while i < n {
            let p = self.pos + i;
            if p >= FBYTES {
                #[cfg(kani)]
                kani::assume(false);
                break;
            }
            bytes(self.slot)[p] = buf[i];
            i += 1;
        }
        self.pos += n;
        Ok(n)
    }

    fn flush(&mut self) -> io::Result<()> {
        Ok(())
    }
}

/// Stand-in for `std::io::BufReader` (substituted textually in
/// src/chunk/mod.rs by the overlay): a pass-through reader, i.e. BufReader
/// with an empty buffer. Reason: std's `Buffer` has a `bool` field, rustc puts
/// the discriminant of `Result<RecordIterator<BufReader<..>>, io::Error>` into
/// that bool's niche, and Kani/CBMC cannot constant-fold a discriminant read
/// from a bool niche - every value that passes through the `?` after
/// `load_records_iter` (file position, offsets, record tags) turns symbolic and
/// the decoder is explored for every record kind at every record. Buffering is
/// a std-internal matter and invisible to raft-log.
pub(crate) struct GhostBufReader<R> {
    inner: R,
}

impl<R: io::Read> GhostBufReader<R> {
    pub(crate) fn with_capacity(_capacity: usize, inner: R) -> Self {
        GhostBufReader { inner }
    }
}

impl<R: io::Read> io::Read for GhostBufReader<R> {
    fn read(&mut self, buf: &mut [u8]) -> io::Result<usize> {
        self.inner.read(buf)
    }
}

// ---- operations used by the stubs ----

/// create_new semantics
pub(crate) fn op_create(slot: usize) -> io::Result<File> {
    tick();
    let g = fs();
    let f = &mut g.files[slot];
    if f.exists {
        return Err(crate::kani_support::stubs::mk_err(io::ErrorKind::AlreadyExists));
    }
    f.exists = true;
    f.len = 0;
    f.pos = 0;
    f.synced_len = 0;
    f.n_open += 1;
    Ok(mk_file(slot))
}

/// open existing read+write
pub(crate) fn op_open(slot: usize) -> io::Result<File> {
    tick();
    let g = fs();
    let f = &mut g.files[slot];
    if !f.exists {
        return Err(crate::kani_support::stubs::mk_err(io::ErrorKind::NotFound));
    }
    f.pos = 0;
    f.n_open += 1;
    crate::kani_support::stubs::reset_err();
    Ok(mk_file(slot))
}

pub(crate) fn op_write(slot: usize, buf: &[u8]) -> io::Result<usize> {
    tick();
    if maybe_fault() {
        return Err(io_fault());
    }
    let g = fs();
    let track = g.track_bytes && !g.skip_write_bytes;
    let f = &mut g.files[slot];
    let n = buf.len();
    if track {
        let mut i = 0;
        while i < n {
            let p = f.pos as usize + i;
            if p >= FBYTES {
                // file larger than FBYTES: outside the bound
                #[cfg(kani)]
                kani::assume(false);
                break;
            }
            bytes(slot)[p] = buf[i];
            i += 1;
        }
    }
    f.pos += n as u64;
    if f.pos > f.len {
        f.len = f.pos;
    }
    f.n_write = f.n_write.saturating_add(1);
    Ok(n)
}

pub(crate) fn op_sync(slot: usize) -> io::Result<()> {
    tick();
    let faulted = maybe_fault();
    let g = fs();
    let stamp = g.stamp;
    let f = &mut g.files[slot];
    if faulted {
        f.n_sync_err = f.n_sync_err.saturating_add(1);
        return Err(io_fault());
    }
    f.synced_len = f.len;
    f.n_sync_ok = f.n_sync_ok.saturating_add(1);
    f.last_sync_stamp = stamp;
    Ok(())
}

pub(crate) fn op_set_len(slot: usize, size: u64) -> io::Result<()> {
    tick();
    let g = fs();
    let track = g.track_bytes;
    let f = &mut g.files[slot];
    if track && size > f.len {
        let mut i = 0;
        while i < FBYTES {
            if (i as u64) >= f.len && (i as u64) < size {
                bytes(slot)[i] = 0;
            }
            i += 1;
        }
    }
    f.len = size;
    if f.synced_len > size {
        f.synced_len = size;
    }
    f.n_set_len = f.n_set_len.saturating_add(1);
    Ok(())
}

pub(crate) fn op_len(slot: usize) -> u64 {
    fs().files[slot].len
}

/// sequential read at the fd cursor
pub(crate) fn op_read(slot: usize, buf: &mut [u8]) -> io::Result<usize> {
    let g = fs();
    let f = &mut g.files[slot];
    let avail = if f.pos < f.len { f.len - f.pos } else { 0 } as usize;
    let n = if buf.len() < avail { buf.len() } else { avail };
    if n == 0 && !buf.is_empty() {
        // read_exact turns this into std's constant UnexpectedEof error
        unsafe { crate::kani_support::stubs::EOF_SEEN = true };
    }
    let mut i = 0;
    while i < n {
        let p = f.pos as usize + i;
        if p >= FBYTES {
            #[cfg(kani)]
            kani::assume(false);
            break;
        }
        buf[i] = bytes(slot)[p];
        i += 1;
    }
    f.pos += n as u64;
    Ok(n)
}

/// One large file (for the block-wise scan of `verify_trailing_zeros`, whose
/// block size is 1 KiB): when BIG_SLOT names a slot, positional reads of that
/// slot come from BIG.
pub(crate) const BIGBYTES: usize = 1100;
pub(crate) static mut BIG: [u8; BIGBYTES] = [0; BIGBYTES];
pub(crate) static mut BIG_SLOT: Option<usize> = None;

pub(crate) fn op_read_at(slot: usize, buf: &mut [u8], offset: u64) -> io::Result<usize> {
    let g = fs();
    let f = &g.files[slot];
    let avail = if offset < f.len { f.len - offset } else { 0 } as usize;
    let n = if buf.len() < avail { buf.len() } else { avail };
    if unsafe { BIG_SLOT } == Some(slot) {
        let off = offset as usize;
        if off + n > BIGBYTES {
            #[cfg(kani)]
            kani::assume(false);
            return Ok(0);
        }
        // one block copy, not a byte loop: 1024 single-byte updates of a heap
        // buffer are 1024 nested array-update expressions
        #[allow(static_mut_refs)]
        buf[..n].copy_from_slice(unsafe { &BIG[off..off + n] });
        return Ok(n);
    }
    if unsafe { PREAD_BLOCK_COPY } {
        // one block copy instead of a byte loop: lets a harness read a whole
        // record back with a small unwinding bound
        let off = offset as usize;
        if off + n > FBYTES {
            #[cfg(kani)]
            kani::assume(false);
            return Ok(0);
        }
        buf[..n].copy_from_slice(&bytes(slot)[off..off + n]);
        return Ok(n);
    }
    let mut i = 0;
    while i < n {
        let p = offset as usize + i;
        if p >= FBYTES {
            #[cfg(kani)]
            kani::assume(false);
            break;
        }
        buf[i] = bytes(slot)[p];
        i += 1;
    }
    Ok(n)
}

pub(crate) static mut PREAD_BLOCK_COPY: bool = false;

pub(crate) fn op_unlink(slot: usize) -> io::Result<()> {
    tick();
    crate::kani_support::ghost_chan::unlink_monitor(slot);
    let g = fs();
    if !g.files[slot].exists {
        return Err(crate::kani_support::stubs::mk_err(io::ErrorKind::NotFound));
    }
    g.files[slot].exists = false;
    if (g.n_unlink as usize) < NFILES {
        g.unlinked[g.n_unlink as usize] = slot as u8;
    }
    g.n_unlink += 1;
    Ok(())
}
