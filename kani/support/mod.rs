//! Support code for the Kani harnesses. Injected into a scratch copy of /repo
//! as `crate::kani_support` (only under cfg(kani)).
#![allow(dead_code, unused_imports, unused_variables, unused_mut)]

pub(crate) mod ktypes;
pub(crate) mod slotmap;
pub(crate) mod ghost_chan;
pub(crate) mod ghost_fs;
pub(crate) mod stubs;
pub(crate) mod common;
pub(crate) mod model;
pub(crate) mod image;

/// `#[kani::proof]` + the standard environment stubs (DESIGN.md §3.3).
/// `crc = real` keeps crc32fast's table code; `crc = off` makes every checksum
/// the constant 0 (Hasher::update does nothing) for harnesses whose property
/// does not depend on checksum values.
macro_rules! env_proof {
    (unwind = $u:expr, crc = real, $(#[$extra:meta])* fn $name:ident() $body:block) => {
        $(#[$extra])*
        #[kani::proof]
        #[kani::unwind($u)]
        #[kani::stub(crc32fast::Hasher::new, crate::kani_support::stubs::crc_new)]
        #[kani::stub(alloc::fmt::format, crate::kani_support::stubs::fmt_format)]
        #[kani::stub(core::fmt::write, crate::kani_support::stubs::fmt_write)]
        #[kani::stub(<core::io::CustomOwner as core::ops::Drop>::drop, crate::kani_support::stubs::custom_owner_drop)]
        #[kani::stub(<std::io::Error as core::fmt::Display>::fmt, crate::kani_support::stubs::io_error_display)]
        #[kani::stub(<std::io::Error as core::fmt::Debug>::fmt, crate::kani_support::stubs::io_error_display)]
        #[kani::stub(<&std::fs::File as std::io::Write>::write, crate::kani_support::stubs::file_write)]
        #[kani::stub(<&std::fs::File as std::io::Read>::read, crate::kani_support::stubs::file_read)]
        #[kani::stub(std::fs::File::sync_data, crate::kani_support::stubs::file_sync_data)]
        #[kani::stub(std::fs::File::sync_all, crate::kani_support::stubs::file_sync_all)]
        #[kani::stub(std::fs::File::set_len, crate::kani_support::stubs::file_set_len)]
        #[kani::stub(std::fs::File::metadata, crate::kani_support::stubs::file_metadata)]
        #[kani::stub(std::fs::Metadata::len, crate::kani_support::stubs::metadata_len)]
        #[kani::stub(<std::fs::File as std::os::unix::fs::FileExt>::read_at, crate::kani_support::stubs::file_read_at)]
        #[kani::stub(std::fs::remove_file, crate::kani_support::stubs::remove_file)]
        #[kani::stub(std::fs::OpenOptions::open, crate::kani_support::stubs::open_options_open)]
        #[kani::stub(crate::config::Config::read_buffer_size, crate::kani_support::stubs::cfg_read_buffer_size)]
        #[kani::stub(crate::config::Config::truncate_incomplete_record, crate::kani_support::stubs::cfg_truncate_incomplete_record)]
        #[kani::stub(crate::config::Config::chunk_max_records, crate::kani_support::stubs::cfg_chunk_max_records)]
        #[kani::stub(crate::config::Config::chunk_max_size, crate::kani_support::stubs::cfg_chunk_max_size)]
        #[kani::stub(crate::config::Config::log_cache_max_items, crate::kani_support::stubs::cfg_log_cache_max_items)]
        #[kani::stub(crate::config::Config::log_cache_capacity, crate::kani_support::stubs::cfg_log_cache_capacity)]
        #[kani::stub(crate::config::Config::chunk_path, crate::kani_support::stubs::chunk_path)]
        #[kani::stub(crate::chunk::Chunk::open_chunk_file, crate::kani_support::stubs::open_chunk_file)]
        #[kani::stub(crate::file_lock::FileLock::new, crate::file_lock::kani_h_a_lock::stub_lock_new)]
        #[kani::stub(crate::raft_log::wal::flush_worker::FlushWorker::spawn, crate::raft_log::wal::flush_worker::kani_h_a_worker::stub_spawn)]
        #[kani::stub(crate::raft_log::raft_log::RaftLog::load_chunk_ids, crate::raft_log::raft_log::kani_h_a_raftlog::stub_load_chunk_ids)]
        fn $name() $body
    };
    (unwind = $u:expr, crc = off, $(#[$extra:meta])* fn $name:ident() $body:block) => {
        $(#[$extra])*
        #[kani::proof]
        #[kani::unwind($u)]
        #[kani::stub(crc32fast::Hasher::new, crate::kani_support::stubs::crc_new)]
        #[kani::stub(crc32fast::Hasher::update, crate::kani_support::stubs::crc_update_noop)]
        #[kani::stub(alloc::fmt::format, crate::kani_support::stubs::fmt_format)]
        #[kani::stub(core::fmt::write, crate::kani_support::stubs::fmt_write)]
        #[kani::stub(<core::io::CustomOwner as core::ops::Drop>::drop, crate::kani_support::stubs::custom_owner_drop)]
        #[kani::stub(<std::io::Error as core::fmt::Display>::fmt, crate::kani_support::stubs::io_error_display)]
        #[kani::stub(<std::io::Error as core::fmt::Debug>::fmt, crate::kani_support::stubs::io_error_display)]
        #[kani::stub(<&std::fs::File as std::io::Write>::write, crate::kani_support::stubs::file_write)]
        #[kani::stub(<&std::fs::File as std::io::Read>::read, crate::kani_support::stubs::file_read)]
        #[kani::stub(std::fs::File::sync_data, crate::kani_support::stubs::file_sync_data)]
        #[kani::stub(std::fs::File::sync_all, crate::kani_support::stubs::file_sync_all)]
        #[kani::stub(std::fs::File::set_len, crate::kani_support::stubs::file_set_len)]
        #[kani::stub(std::fs::File::metadata, crate::kani_support::stubs::file_metadata)]
        #[kani::stub(std::fs::Metadata::len, crate::kani_support::stubs::metadata_len)]
        #[kani::stub(<std::fs::File as std::os::unix::fs::FileExt>::read_at, crate::kani_support::stubs::file_read_at)]
        #[kani::stub(std::fs::remove_file, crate::kani_support::stubs::remove_file)]
        #[kani::stub(std::fs::OpenOptions::open, crate::kani_support::stubs::open_options_open)]
        #[kani::stub(crate::config::Config::read_buffer_size, crate::kani_support::stubs::cfg_read_buffer_size)]
        #[kani::stub(crate::config::Config::truncate_incomplete_record, crate::kani_support::stubs::cfg_truncate_incomplete_record)]
        #[kani::stub(crate::config::Config::chunk_max_records, crate::kani_support::stubs::cfg_chunk_max_records)]
        #[kani::stub(crate::config::Config::chunk_max_size, crate::kani_support::stubs::cfg_chunk_max_size)]
        #[kani::stub(crate::config::Config::log_cache_max_items, crate::kani_support::stubs::cfg_log_cache_max_items)]
        #[kani::stub(crate::config::Config::log_cache_capacity, crate::kani_support::stubs::cfg_log_cache_capacity)]
        #[kani::stub(crate::config::Config::chunk_path, crate::kani_support::stubs::chunk_path)]
        #[kani::stub(crate::chunk::Chunk::open_chunk_file, crate::kani_support::stubs::open_chunk_file)]
        #[kani::stub(crate::file_lock::FileLock::new, crate::file_lock::kani_h_a_lock::stub_lock_new)]
        #[kani::stub(crate::raft_log::wal::flush_worker::FlushWorker::spawn, crate::raft_log::wal::flush_worker::kani_h_a_worker::stub_spawn)]
        #[kani::stub(crate::raft_log::raft_log::RaftLog::load_chunk_ids, crate::raft_log::raft_log::kani_h_a_raftlog::stub_load_chunk_ids)]
        fn $name() $body
    };
    (unwind = $u:expr, rot = ghost, crc = real, $(#[$extra:meta])* fn $name:ident() $body:block) => {
        $(#[$extra])*
        #[kani::proof]
        #[kani::unwind($u)]
        #[kani::stub(crc32fast::Hasher::new, crate::kani_support::stubs::crc_new)]
        #[kani::stub(alloc::fmt::format, crate::kani_support::stubs::fmt_format)]
        #[kani::stub(core::fmt::write, crate::kani_support::stubs::fmt_write)]
        #[kani::stub(<core::io::CustomOwner as core::ops::Drop>::drop, crate::kani_support::stubs::custom_owner_drop)]
        #[kani::stub(<std::io::Error as core::fmt::Display>::fmt, crate::kani_support::stubs::io_error_display)]
        #[kani::stub(<std::io::Error as core::fmt::Debug>::fmt, crate::kani_support::stubs::io_error_display)]
        #[kani::stub(<&std::fs::File as std::io::Write>::write, crate::kani_support::stubs::file_write)]
        #[kani::stub(<&std::fs::File as std::io::Read>::read, crate::kani_support::stubs::file_read)]
        #[kani::stub(std::fs::File::sync_data, crate::kani_support::stubs::file_sync_data)]
        #[kani::stub(std::fs::File::sync_all, crate::kani_support::stubs::file_sync_all)]
        #[kani::stub(std::fs::File::set_len, crate::kani_support::stubs::file_set_len)]
        #[kani::stub(std::fs::File::metadata, crate::kani_support::stubs::file_metadata)]
        #[kani::stub(std::fs::Metadata::len, crate::kani_support::stubs::metadata_len)]
        #[kani::stub(<std::fs::File as std::os::unix::fs::FileExt>::read_at, crate::kani_support::stubs::file_read_at)]
        #[kani::stub(std::fs::remove_file, crate::kani_support::stubs::remove_file)]
        #[kani::stub(std::fs::OpenOptions::open, crate::kani_support::stubs::open_options_open)]
        #[kani::stub(crate::config::Config::read_buffer_size, crate::kani_support::stubs::cfg_read_buffer_size)]
        #[kani::stub(crate::config::Config::truncate_incomplete_record, crate::kani_support::stubs::cfg_truncate_incomplete_record)]
        #[kani::stub(crate::config::Config::chunk_max_records, crate::kani_support::stubs::cfg_chunk_max_records)]
        #[kani::stub(crate::config::Config::chunk_max_size, crate::kani_support::stubs::cfg_chunk_max_size)]
        #[kani::stub(crate::config::Config::log_cache_max_items, crate::kani_support::stubs::cfg_log_cache_max_items)]
        #[kani::stub(crate::config::Config::log_cache_capacity, crate::kani_support::stubs::cfg_log_cache_capacity)]
        #[kani::stub(crate::config::Config::chunk_path, crate::kani_support::stubs::chunk_path)]
        #[kani::stub(crate::chunk::Chunk::open_chunk_file, crate::kani_support::stubs::open_chunk_file)]
        #[kani::stub(crate::file_lock::FileLock::new, crate::file_lock::kani_h_a_lock::stub_lock_new)]
        #[kani::stub(crate::raft_log::wal::flush_worker::FlushWorker::spawn, crate::raft_log::wal::flush_worker::kani_h_a_worker::stub_spawn)]
        #[kani::stub(crate::raft_log::raft_log::RaftLog::load_chunk_ids, crate::raft_log::raft_log::kani_h_a_raftlog::stub_load_chunk_ids)]
        #[kani::stub(crate::raft_log::wal::RaftLogWAL::is_open_chunk_full, crate::raft_log::wal::kani_h_a_wal::stub_is_open_chunk_full)]
        fn $name() $body
    };
    (unwind = $u:expr, rot = ghost, crc = off, $(#[$extra:meta])* fn $name:ident() $body:block) => {
        $(#[$extra])*
        #[kani::proof]
        #[kani::unwind($u)]
        #[kani::stub(crc32fast::Hasher::new, crate::kani_support::stubs::crc_new)]
        #[kani::stub(crc32fast::Hasher::update, crate::kani_support::stubs::crc_update_noop)]
        #[kani::stub(alloc::fmt::format, crate::kani_support::stubs::fmt_format)]
        #[kani::stub(core::fmt::write, crate::kani_support::stubs::fmt_write)]
        #[kani::stub(<core::io::CustomOwner as core::ops::Drop>::drop, crate::kani_support::stubs::custom_owner_drop)]
        #[kani::stub(<std::io::Error as core::fmt::Display>::fmt, crate::kani_support::stubs::io_error_display)]
        #[kani::stub(<std::io::Error as core::fmt::Debug>::fmt, crate::kani_support::stubs::io_error_display)]
        #[kani::stub(<&std::fs::File as std::io::Write>::write, crate::kani_support::stubs::file_write)]
        #[kani::stub(<&std::fs::File as std::io::Read>::read, crate::kani_support::stubs::file_read)]
        #[kani::stub(std::fs::File::sync_data, crate::kani_support::stubs::file_sync_data)]
        #[kani::stub(std::fs::File::sync_all, crate::kani_support::stubs::file_sync_all)]
        #[kani::stub(std::fs::File::set_len, crate::kani_support::stubs::file_set_len)]
        #[kani::stub(std::fs::File::metadata, crate::kani_support::stubs::file_metadata)]
        #[kani::stub(std::fs::Metadata::len, crate::kani_support::stubs::metadata_len)]
        #[kani::stub(<std::fs::File as std::os::unix::fs::FileExt>::read_at, crate::kani_support::stubs::file_read_at)]
        #[kani::stub(std::fs::remove_file, crate::kani_support::stubs::remove_file)]
        #[kani::stub(std::fs::OpenOptions::open, crate::kani_support::stubs::open_options_open)]
        #[kani::stub(crate::config::Config::read_buffer_size, crate::kani_support::stubs::cfg_read_buffer_size)]
        #[kani::stub(crate::config::Config::truncate_incomplete_record, crate::kani_support::stubs::cfg_truncate_incomplete_record)]
        #[kani::stub(crate::config::Config::chunk_max_records, crate::kani_support::stubs::cfg_chunk_max_records)]
        #[kani::stub(crate::config::Config::chunk_max_size, crate::kani_support::stubs::cfg_chunk_max_size)]
        #[kani::stub(crate::config::Config::log_cache_max_items, crate::kani_support::stubs::cfg_log_cache_max_items)]
        #[kani::stub(crate::config::Config::log_cache_capacity, crate::kani_support::stubs::cfg_log_cache_capacity)]
        #[kani::stub(crate::config::Config::chunk_path, crate::kani_support::stubs::chunk_path)]
        #[kani::stub(crate::chunk::Chunk::open_chunk_file, crate::kani_support::stubs::open_chunk_file)]
        #[kani::stub(crate::file_lock::FileLock::new, crate::file_lock::kani_h_a_lock::stub_lock_new)]
        #[kani::stub(crate::raft_log::wal::flush_worker::FlushWorker::spawn, crate::raft_log::wal::flush_worker::kani_h_a_worker::stub_spawn)]
        #[kani::stub(crate::raft_log::raft_log::RaftLog::load_chunk_ids, crate::raft_log::raft_log::kani_h_a_raftlog::stub_load_chunk_ids)]
        #[kani::stub(crate::raft_log::wal::RaftLogWAL::is_open_chunk_full, crate::raft_log::wal::kani_h_a_wal::stub_is_open_chunk_full)]
        fn $name() $body
    };
}
pub(crate) use env_proof;

/// `env_proof!` + ghost-constant Config accessors (chunk-file replay harnesses).
macro_rules! replay_proof {
    (unwind = $u:expr, crc = $crc:ident, fn $name:ident() $body:block) => {
        crate::kani_support::env_proof! {
            unwind = $u, crc = $crc,
            #[kani::stub(std::io::Error::kind, crate::kani_support::stubs::io_error_kind)]
            #[kani::stub(<std::os::fd::OwnedFd as core::ops::Drop>::drop, crate::kani_support::stubs::owned_fd_drop)]
            #[kani::stub(<std::fs::File as fs2::FileExt>::unlock, crate::kani_support::stubs::flock_unlock)]
            fn $name() $body
        }
    };
}
pub(crate) use replay_proof;
