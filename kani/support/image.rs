//! Chunk-file images laid down byte by byte in the ghost file system, for the
//! harnesses that run the real `Chunk::open` / `RaftLog::open`.
//!
//! Why not the real encoder: a record wrapped in `WALRecord` has lost the
//! constness of its Option tags for CBMC's symbolic execution (the enum is
//! niche-encoded), and the encoder then walks every Option pattern. The byte
//! layout written here is the one C12 proves the real encoder produces for
//! each shape (c12_rt_* / c12_dec_*: accepted bytes are the canonical
//! encoding); every harness that uses an image also carries a reachability
//! witness that the real decoder accepts it. `KTypes` layout:
//!   frame  = [0,0,0,tag] body [0,0,0,0,crc32 BE]
//!   id     = [term, index]            Option<x> = [0] | [1] x
//!   P      = [n] b*n                  State = [1] opt(vote) opt(last) opt(committed) opt(purged) opt(user_data:u8)
use crate::kani_support::ghost_fs as gfs;
use crate::kani_support::ktypes::Pay;

pub(crate) type Id = (u8, u8);

pub(crate) struct Img {
    pub slot: usize,
    pub pos: usize,
}

impl Img {
    /// start an image in ghost slot `slot`, bound to chunk id `chunk_id`
    pub(crate) fn new(slot: usize, chunk_id: u64) -> Img {
        let g = gfs::fs();
        g.track_bytes = true;
        g.skip_write_bytes = true;
        g.files[slot].used = true;
        g.files[slot].exists = true;
        g.files[slot].chunk_id = chunk_id;
        g.files[slot].len = 0;
        Img { slot, pos: 0 }
    }

    #[inline(always)]
    pub(crate) fn put(&mut self, b: u8) {
        gfs::bytes(self.slot)[self.pos] = b;
        self.pos += 1;
    }

    fn tag(&mut self, t: u8) {
        self.put(0);
        self.put(0);
        self.put(0);
        self.put(t);
    }

    fn id(&mut self, id: Id) {
        self.put(id.0);
        self.put(id.1);
    }

    fn opt_id(&mut self, o: Option<Id>) {
        match o {
            None => self.put(0),
            Some(i) => {
                self.put(1);
                self.id(i);
            }
        }
    }

    /// checksum of the frame that started at `start` (crc32 of everything
    /// before the checksum field, as a big-endian u64)
    fn crc(&mut self, start: usize) {
        let mut h = crc32fast::Hasher::new();
        h.update(&gfs::bytes(self.slot)[start..self.pos]);
        let c = h.finalize().to_be_bytes();
        self.put(0);
        self.put(0);
        self.put(0);
        self.put(0);
        self.put(c[0]);
        self.put(c[1]);
        self.put(c[2]);
        self.put(c[3]);
    }

    /// make everything written so far the file content
    pub(crate) fn commit_len(&mut self) -> usize {
        gfs::fs().files[self.slot].len = self.pos as u64;
        self.pos
    }

    pub(crate) fn vote(&mut self, v: Id) -> usize {
        let s = self.pos;
        self.tag(0);
        self.id(v);
        self.crc(s);
        self.pos
    }

    /// payload length `n` must be a constant at the call site
    pub(crate) fn append<Q: Pay>(&mut self, id: Id, p: Q) -> usize {
        let (pn, pb) = p.nb();
        let s = self.pos;
        self.tag(1);
        self.id(id);
        self.put(pn);
        let mut i = 0;
        while i < 3 {
            if i < pn {
                self.put(pb);
            }
            i += 1;
        }
        self.crc(s);
        self.pos
    }

    pub(crate) fn commit(&mut self, id: Id) -> usize {
        let s = self.pos;
        self.tag(2);
        self.id(id);
        self.crc(s);
        self.pos
    }

    pub(crate) fn truncate_after(&mut self, after: Option<Id>) -> usize {
        let s = self.pos;
        self.tag(3);
        self.opt_id(after);
        self.crc(s);
        self.pos
    }

    pub(crate) fn purge(&mut self, upto: Id) -> usize {
        let s = self.pos;
        self.tag(4);
        self.id(upto);
        self.crc(s);
        self.pos
    }

    /// the Option pattern of the five fields must be constant at the call site
    pub(crate) fn state(
        &mut self,
        vote: Option<Id>,
        last: Option<Id>,
        committed: Option<Id>,
        purged: Option<Id>,
        user_data: Option<u8>,
    ) -> usize {
        let s = self.pos;
        self.tag(5);
        self.put(1);
        self.opt_id(vote);
        self.opt_id(last);
        self.opt_id(committed);
        self.opt_id(purged);
        match user_data {
            None => self.put(0),
            Some(u) => {
                self.put(1);
                self.put(u);
            }
        }
        self.crc(s);
        self.pos
    }
}
