// @anchor src/file_lock.rs
//! In-place support (child of file_lock.rs): fabricate a FileLock without
//! touching the real file system. Used by harnesses that are not about C13.
use super::*;
use crate::kani_support::ghost_fs as gfs;

pub(crate) static mut LOCK_HELD: bool = false;
pub(crate) static mut LOCK_ATTEMPTS: u8 = 0;

/// Stub for `FileLock::new`: ghost flock table with one entry.
pub(crate) fn stub_lock_new(config: Arc<Config>) -> Result<FileLock, io::Error> {
    use std::os::fd::FromRawFd;
    unsafe {
        LOCK_ATTEMPTS = LOCK_ATTEMPTS.saturating_add(1);
        if LOCK_HELD {
            return Err(io::Error::from(io::ErrorKind::WouldBlock));
        }
        LOCK_HELD = true;
        let f = File::from_raw_fd(gfs::LOCK_FD_BASE);
        Ok(FileLock { config, f })
    }
}
