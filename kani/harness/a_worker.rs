// @anchor src/raft_log/wal/flush_worker.rs
//! In-place support (child of flush_worker.rs): park / run the worker.
use super::*;

pub(crate) static mut PARKED: *mut u8 = core::ptr::null_mut();
pub(crate) static mut SPAWNS: u8 = 0;

/// Stub for `FlushWorker::spawn`: Kani has no threads; the worker value is
/// parked and run by the harness (DESIGN.md §3.4).
pub(crate) fn stub_spawn<T: Types>(w: FlushWorker<T>) {
    unsafe {
        SPAWNS = SPAWNS.saturating_add(1);
        PARKED = Box::into_raw(Box::new(w)) as *mut u8;
    }
}

pub(crate) fn take_worker<T: Types>() -> FlushWorker<T> {
    unsafe {
        let p = PARKED as *mut FlushWorker<T>;
        PARKED = core::ptr::null_mut();
        *Box::from_raw(p)
    }
}

pub(crate) fn mk_worker<T: Types>(
    rx: Receiver<SeqRequest<T>>,
    files: Vec<FileEntry<T>>,
    cache: Arc<RwLock<PayloadCache<T>>>,
    done_seq: Arc<AtomicU64>,
) -> FlushWorker<T> {
    FlushWorker { rx, files, cache, done_seq }
}

/// Run the real worker loop until the (ghost) channel reports "closed".
pub(crate) fn run_worker<T: Types>(w: FlushWorker<T>) -> Result<(), io::Error> {
    w.run_inner()
}

pub(crate) fn n_files<T: Types>(w: &FlushWorker<T>) -> usize {
    w.files.len()
}

/// script mode: file handles the script's AppendFile steps refer to
pub(crate) static mut SCRIPT_FILES: [Option<Arc<File>>; 4] = [None, None, None, None];

/// Build the i-th scripted request (see ghost_chan::script). Everything that
/// steers control flow (variant, data length, sync flag, callback presence) is
/// a constant at this point.
fn build_scripted<T: Types>(i: usize) -> Option<SeqRequest<T>> {
    use crate::kani_support::ghost_chan::script;
    use crate::kani_support::ghost_fs as gfs;
    use crate::kani_support::ktypes::GhostCb;
    use crate::raft_log::wal::flush_request::WriteRequest;
    // scripts exist only for instantiations whose callback type is GhostCb
    if core::any::TypeId::of::<T::Callback>() != core::any::TypeId::of::<GhostCb>() {
        return None;
    }
    let st = script::step(i);
    let req = match st.kind {
        0 => {
            let f = unsafe {
                match &SCRIPT_FILES[st.slot as usize] {
                    Some(f) => f.clone(),
                    None => return None,
                }
            };
            WorkerRequest::AppendFile(FileEntry::<T>::new(st.off, f, None))
        }
        1 => {
            let mut paths: Vec<String> = Vec::with_capacity(2);
            paths.push(gfs::path_of_slot(st.slot as usize));
            if st.slot2 != 0xff {
                paths.push(gfs::path_of_slot(st.slot2 as usize));
            }
            WorkerRequest::RemoveChunks { chunk_paths: paths }
        }
        _ => {
            let mut data: Vec<u8> = Vec::with_capacity(2);
            if st.d >= 1 {
                data.push(0xAA);
            }
            if st.d >= 2 {
                data.push(0xBB);
            }
            let callback: Option<T::Callback> = if st.cb {
                let cb = GhostCb { id: i as u8 };
                // same type (checked above)
                Some(unsafe { core::mem::transmute_copy::<GhostCb, T::Callback>(&cb) })
            } else {
                None
            };
            WorkerRequest::Write(WriteRequest::<T> { upto_offset: st.off, data, sync: true, callback })
        }
    };
    Some(SeqRequest { seq: (i + 1) as u64, req })
}

// ---- ghost channel item: variant tag + rebuild (see ghost_chan.rs) ----
impl<T: Types> crate::kani_support::ghost_chan::GhostItem for SeqRequest<T> {
    fn ghost_from_script(i: usize) -> Option<Self> {
        build_scripted::<T>(i)
    }

    fn ghost_tag(&self) -> u8 {
        match &self.req {
            WorkerRequest::AppendFile(_) => 0,
            WorkerRequest::RemoveChunks { .. } => 1,
            WorkerRequest::Write(_) => 2,
            WorkerRequest::GetFlushStat { .. } => 3,
        }
    }

    fn ghost_rebuild(self, tag: u8) -> Self {
        let SeqRequest { seq, req } = self;
        let req = match (tag, req) {
            (0, WorkerRequest::AppendFile(f)) => WorkerRequest::AppendFile(f),
            (1, WorkerRequest::RemoveChunks { chunk_paths }) => WorkerRequest::RemoveChunks { chunk_paths },
            (2, WorkerRequest::Write(w)) => WorkerRequest::Write(w),
            (3, WorkerRequest::GetFlushStat { tx }) => WorkerRequest::GetFlushStat { tx },
            (_, r) => {
                core::mem::forget(r);
                #[cfg(kani)]
                kani::assume(false);
                unreachable!()
            }
        };
        SeqRequest { seq, req }
    }
}

/// Run the real non-flush request handler (RemoveChunks / AppendFile).
pub(crate) fn handle_nf<T: Types>(w: &mut FlushWorker<T>, req: WorkerRequest<T>) -> Result<(), io::Error> {
    w.handle_non_flush_request(req)
}
