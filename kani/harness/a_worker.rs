// @anchor src/raft_log/wal/flush_worker.rs
//! In-place support (child of flush_worker.rs): park / run the worker.
use super::*;

pub(crate) static mut PARKED: *mut u8 = core::ptr::null_mut();
pub(crate) static mut SPAWNS: u8 = 0;

/// Stub for `FlushWorker::spawn`: Kani has no threads; the worker value is
/// parked and run by the harness (DESIGN.md §3.4).
pub(crate) fn stub_spawn<T: Types>(w: FlushWorker<T>) {
    unsafe {
        SPAWNS = SPAWNS.saturating_add(1);
        PARKED = Box::into_raw(Box::new(w)) as *mut u8;
    }
}

pub(crate) fn take_worker<T: Types>() -> FlushWorker<T> {
    unsafe {
        let p = PARKED as *mut FlushWorker<T>;
        PARKED = core::ptr::null_mut();
        *Box::from_raw(p)
    }
}

pub(crate) fn mk_worker<T: Types>(
    rx: Receiver<SeqRequest<T>>,
    files: Vec<FileEntry<T>>,
    cache: Arc<RwLock<PayloadCache<T>>>,
    done_seq: Arc<AtomicU64>,
) -> FlushWorker<T> {
    FlushWorker { rx, files, cache, done_seq }
}

/// Run the real worker loop until the (ghost) channel reports "closed".
pub(crate) fn run_worker<T: Types>(w: FlushWorker<T>) -> Result<(), io::Error> {
    w.run_inner()
}

pub(crate) fn n_files<T: Types>(w: &FlushWorker<T>) -> usize {
    w.files.len()
}

// ---- ghost channel item: variant tag + rebuild (see ghost_chan.rs) ----
impl<T: Types> crate::kani_support::ghost_chan::GhostItem for SeqRequest<T> {
    fn ghost_tag(&self) -> u8 {
        match &self.req {
            WorkerRequest::AppendFile(_) => 0,
            WorkerRequest::RemoveChunks { .. } => 1,
            WorkerRequest::Write(_) => 2,
            WorkerRequest::GetFlushStat { .. } => 3,
        }
    }

    fn ghost_rebuild(self, tag: u8) -> Self {
        let SeqRequest { seq, req } = self;
        let req = match (tag, req) {
            (0, WorkerRequest::AppendFile(f)) => WorkerRequest::AppendFile(f),
            (1, WorkerRequest::RemoveChunks { chunk_paths }) => WorkerRequest::RemoveChunks { chunk_paths },
            (2, WorkerRequest::Write(w)) => WorkerRequest::Write(w),
            (3, WorkerRequest::GetFlushStat { tx }) => WorkerRequest::GetFlushStat { tx },
            (_, r) => {
                core::mem::forget(r);
                #[cfg(kani)]
                kani::assume(false);
                unreachable!()
            }
        };
        SeqRequest { seq, req }
    }
}

/// Run the real non-flush request handler (RemoveChunks / AppendFile).
pub(crate) fn handle_nf<T: Types>(w: &mut FlushWorker<T>, req: WorkerRequest<T>) -> Result<(), io::Error> {
    w.handle_non_flush_request(req)
}
