// @anchor src/raft_log/wal/flush_worker.rs
//! C04 (flush acknowledgement soundness) and C08(a) (unlink only after the
//! purge is durable) on the real `FlushWorker::run_inner`,
//! `sync_all_files`, `handle_non_flush_request`.
//!
//! The request script of each harness is a concrete *shape* from the grammar
//! of what `RaftLog::flush` / `try_close_full_chunk` emit: flush -> W[,R];
//! rotation -> [Wtail,] A. The requests are built when the worker receives
//! them (ghost_chan::script), so their kind is a constant for symbolic
//! execution. The batching schedule (which try_recv calls answer Empty
//! although a request is available, = the caller enqueues it a moment later)
//! is a concrete bit mask; every mask of a shape is its own harness
//! (exhaustive for that shape). Symbolic in every harness: the head lengths of
//! the files (hence all offsets), and the failure of any write / fdatasync
//! (at most MAXF failures per run, at symbolic positions).
//!
//! Ghost truth (kani_support::ghost_fs): per file `len` and `synced_len` =
//! length at the last *successful* sync. The monitors (ghost_chan::cb_fire,
//! unlink_monitor) look at ghost truth, not at the worker's bookkeeping:
//!  C04(1,5) an Ok callback implies every byte journalled at or before that
//!           flush is written and covered by a successful sync of its file;
//!  C04(2,3) callbacks fire at most once and in request order;
//!  C04(4)   without an injected failure every callback fires exactly once, Ok;
//!  C08(a)   at every unlink the Write queued before the RemoveChunks (it
//!           carries the purge record) is durably synced; unlinks are
//!           oldest-first.
use super::*;
use crate::kani_support::ghost_chan as gc;
use crate::kani_support::ghost_chan::script;
use crate::kani_support::ghost_fs as gfs;
use crate::kani_support::ktypes::*;
use super::kani_h_a_worker::*;

const NF: usize = gfs::NFILES;

/// running "journalled so far" per file while the script is defined
static mut CUR: [u64; NF] = [0; NF];
static mut TARGET: usize = 0;

fn mk_file(slot: usize, chunk_id: u64, head: u64) -> Arc<File> {
    let g = gfs::fs();
    g.files[slot].used = true;
    g.files[slot].exists = true;
    g.files[slot].chunk_id = chunk_id;
    g.files[slot].len = head;
    g.files[slot].pos = head;
    g.files[slot].synced_len = 0;
    let f = Arc::new(gfs::mk_file(slot));
    // never reach close(): keep one reference alive for ever
    core::mem::forget(f.clone());
    f
}

fn setup(maxf: u8, mask: u32) -> FlushWorker<KTypes> {
    let g = gfs::fs();
    g.faults = maxf > 0;
    g.max_faults = maxf;
    unsafe {
        gc::sched::BREAK_MASK = mask;
        script::ON = true;
        script::N = 0;
        script::PC = 0;
    }
    gc::mon().on = true;
    let head0: u64 = kani::any();
    kani::assume(head0 >= 1 && head0 <= 3);
    let f0 = mk_file(0, 0, head0);
    unsafe {
        CUR[0] = head0;
        TARGET = 0;
        SCRIPT_FILES[0] = Some(f0.clone());
    }
    let (tx, rx) = gc::sync_channel::<SeqRequest<KTypes>>(1024);
    core::mem::forget(tx);
    let cache = Arc::new(RwLock::new(PayloadCache::<KTypes>::new(4, 16)));
    let done = Arc::new(AtomicU64::new(0));
    let fe = FileEntry::<KTypes>::new(0, f0, None);
    FlushWorker::new(rx, fe, cache, done)
}

fn add(st: script::Step) -> usize {
    unsafe {
        let j = script::N;
        script::STEPS[j] = st;
        gc::mon().need[j] = CUR;
        script::N = j + 1;
        j
    }
}

/// a Write with data length `d` (concrete); `cb` = carries a callback
fn w(d: u8, cb: bool) {
    unsafe {
        CUR[TARGET] += d as u64;
        add(script::Step { kind: 2, d, cb, slot: 0, slot2: 0xff, off: CUR[TARGET] });
    }
}

/// AppendFile for a new chunk file (already created and its head record
/// written, unsynced, by the caller thread); head length symbolic
fn a(slot: usize) {
    let head: u64 = kani::any();
    kani::assume(head >= 1 && head <= 3);
    unsafe {
        let start = gfs::fs().files[TARGET].chunk_id + CUR[TARGET];
        let f = mk_file(slot, start, head);
        SCRIPT_FILES[slot] = Some(f);
        TARGET = slot;
        CUR[slot] = head;
        add(script::Step { kind: 0, d: 0, cb: false, slot: slot as u8, slot2: 0xff, off: start });
    }
}

/// RemoveChunks for ghost slot(s) (oldest first, as `purge` pops them)
fn r(slot_a: u8, slot_b: u8) {
    unsafe {
        gc::mon().last_w_before_r = script::N - 1;
    }
    add(script::Step { kind: 1, d: 0, cb: false, slot: slot_a, slot2: slot_b, off: 0 });
}

/// run the real worker to the end of the script and evaluate the end-of-run
/// monitors. `ncb` = number of callbacks in the script.
fn finish(worker: FlushWorker<KTypes>, ncb: u8) {
    let res = run_worker(worker);
    let worker_ok = crate::kani_support::common::is_ok(res);
    let g = gfs::fs();
    let m = gc::mon();
    // (4) no I/O error => every callback fired exactly once, with Ok
    if g.n_faults == 0 {
        assert!(worker_ok);
        assert!(m.n_cb == ncb, "without I/O errors every callback fires exactly once");
        assert!(m.n_ok == ncb);
        assert!(script::remaining() == 0, "worker stopped before the end of the script");
    }
    assert!(m.n_cb <= ncb);
    kani::cover!(g.n_faults == 0 && m.n_cb == ncb, "fault-free run completes all callbacks");
    if g.max_faults > 0 {
        kani::cover!(g.n_faults > 0 && worker_ok, "a run with an injected sync failure that the worker survives");
    }
}

macro_rules! worker_harness {
    ($name:ident, $maxf:expr, $mask:expr, $script:ident, $ncb:expr) => {
        #[kani::proof]
        #[kani::unwind(5)]
        #[kani::stub(alloc::fmt::format, crate::kani_support::stubs::fmt_format)]
        #[kani::stub(core::fmt::write, crate::kani_support::stubs::fmt_write)]
        #[kani::stub(<core::io::CustomOwner as core::ops::Drop>::drop, crate::kani_support::stubs::custom_owner_drop)]
        #[kani::stub(<std::io::Error as core::fmt::Display>::fmt, crate::kani_support::stubs::io_error_display)]
        #[kani::stub(<std::io::Error as core::fmt::Debug>::fmt, crate::kani_support::stubs::io_error_display)]
        #[kani::stub(<&std::fs::File as std::io::Write>::write, crate::kani_support::stubs::file_write)]
        #[kani::stub(std::fs::File::sync_data, crate::kani_support::stubs::file_sync_data)]
        #[kani::stub(std::fs::File::metadata, crate::kani_support::stubs::file_metadata)]
        #[kani::stub(std::fs::remove_file, crate::kani_support::stubs::remove_file)]
        #[kani::stub(std::vec::Vec::with_capacity, crate::kani_support::stubs::vec_with_capacity)]
        fn $name() {
            let worker = setup($maxf, $mask);
            $script();
            finish(worker, $ncb);
        }
    };
}

// ---- shapes (data lengths concrete: a symbolic length makes write_all's
// "wrote 0 bytes" error path reachable for symbolic execution at every write)
/// one flush
fn sh_w() { w(1, true); }
/// two flushes (batched or not), the second one with nothing new
fn sh_ww() { w(2, true); w(0, true); }
/// flush, rotation with pending tail, flush
fn sh_wtaw() { w(1, true); w(1, false); a(1); w(2, true); }
/// rotation with tail, then two flushes: the shape in which an older file's
/// failed sync must not be forgotten
fn sh_taww() { w(1, false); a(1); w(1, true); w(0, true); }
/// rotation without pending tail, two flushes
fn sh_aww() { a(1); w(2, true); w(1, true); }
/// flush without callback, then an empty flush with callback
fn sh_wnw() { w(2, false); w(0, true); }
/// two rotations, then a flush
fn sh_tataw() { w(1, false); a(1); w(1, false); a(2); w(1, true); }
/// rotation, flush + remove of the oldest closed chunk
fn sh_awr() { a(1); w(1, true); r(0, 0xff); }
/// remove while the next flush is already queued
fn sh_awrw() { a(1); w(1, true); r(0, 0xff); w(1, true); }
/// rotation with tail, flush, remove, flush
fn sh_tawrw() { w(1, false); a(1); w(1, true); r(0, 0xff); w(0, true); }
/// two closed chunks removed by one request, oldest first
fn sh_aawr2() { a(1); a(2); w(1, true); r(0, 1); }

// ---- c04_w: 1 requests, 1 batching schedules ----
// @harness name=c04_w_m00 prop=C04 tier=quick timeout=1200
worker_harness!(c04_w_m00, 1, 0, sh_w, 1);

// ---- c04_ww: 2 requests, 2 batching schedules ----
// @harness name=c04_ww_m00 prop=C04 tier=quick timeout=1200
worker_harness!(c04_ww_m00, 2, 0, sh_ww, 2);
// @harness name=c04_ww_m01 prop=C04 tier=quick timeout=1200
worker_harness!(c04_ww_m01, 2, 1, sh_ww, 2);

// ---- c04_wnw: 2 requests, 2 batching schedules ----
// @harness name=c04_wnw_m00 prop=C04 tier=quick timeout=1200
worker_harness!(c04_wnw_m00, 1, 0, sh_wnw, 1);
// @harness name=c04_wnw_m01 prop=C04 tier=quick timeout=1200
worker_harness!(c04_wnw_m01, 1, 1, sh_wnw, 1);

// ---- c04_taww: 4 requests, 8 batching schedules ----
// @harness name=c04_taww_m00 prop=C04 tier=quick timeout=1200
worker_harness!(c04_taww_m00, 2, 0, sh_taww, 2);
// @harness name=c04_taww_m01 prop=C04 tier=quick timeout=1200
worker_harness!(c04_taww_m01, 2, 1, sh_taww, 2);
// @harness name=c04_taww_m02 prop=C04 tier=quick timeout=1200
worker_harness!(c04_taww_m02, 2, 2, sh_taww, 2);
// @harness name=c04_taww_m03 prop=C04 tier=quick timeout=1200
worker_harness!(c04_taww_m03, 2, 3, sh_taww, 2);
// @harness name=c04_taww_m04 prop=C04 tier=quick timeout=1200
worker_harness!(c04_taww_m04, 2, 4, sh_taww, 2);
// @harness name=c04_taww_m05 prop=C04 tier=quick timeout=1200
worker_harness!(c04_taww_m05, 2, 5, sh_taww, 2);
// @harness name=c04_taww_m06 prop=C04 tier=quick timeout=1200
worker_harness!(c04_taww_m06, 2, 6, sh_taww, 2);
// @harness name=c04_taww_m07 prop=C04 tier=quick timeout=1200
worker_harness!(c04_taww_m07, 2, 7, sh_taww, 2);

// ---- c04_wtaw: 4 requests, 8 batching schedules ----
// @harness name=c04_wtaw_m00 prop=C04 tier=thorough timeout=1200
worker_harness!(c04_wtaw_m00, 2, 0, sh_wtaw, 2);
// @harness name=c04_wtaw_m01 prop=C04 tier=thorough timeout=1200
worker_harness!(c04_wtaw_m01, 2, 1, sh_wtaw, 2);
// @harness name=c04_wtaw_m02 prop=C04 tier=thorough timeout=1200
worker_harness!(c04_wtaw_m02, 2, 2, sh_wtaw, 2);
// @harness name=c04_wtaw_m03 prop=C04 tier=thorough timeout=1200
worker_harness!(c04_wtaw_m03, 2, 3, sh_wtaw, 2);
// @harness name=c04_wtaw_m04 prop=C04 tier=thorough timeout=1200
worker_harness!(c04_wtaw_m04, 2, 4, sh_wtaw, 2);
// @harness name=c04_wtaw_m05 prop=C04 tier=thorough timeout=1200
worker_harness!(c04_wtaw_m05, 2, 5, sh_wtaw, 2);
// @harness name=c04_wtaw_m06 prop=C04 tier=thorough timeout=1200
worker_harness!(c04_wtaw_m06, 2, 6, sh_wtaw, 2);
// @harness name=c04_wtaw_m07 prop=C04 tier=thorough timeout=1200
worker_harness!(c04_wtaw_m07, 2, 7, sh_wtaw, 2);

// ---- c04_aww: 3 requests, 4 batching schedules ----
// @harness name=c04_aww_m00 prop=C04 tier=thorough timeout=1200
worker_harness!(c04_aww_m00, 2, 0, sh_aww, 2);
// @harness name=c04_aww_m01 prop=C04 tier=thorough timeout=1200
worker_harness!(c04_aww_m01, 2, 1, sh_aww, 2);
// @harness name=c04_aww_m02 prop=C04 tier=thorough timeout=1200
worker_harness!(c04_aww_m02, 2, 2, sh_aww, 2);
// @harness name=c04_aww_m03 prop=C04 tier=thorough timeout=1200
worker_harness!(c04_aww_m03, 2, 3, sh_aww, 2);

// ---- c04_tataw: 5 requests, 12 of the 16 batching schedules (masks 3, 7, 11, 15
// put more requests into one batch than the unwinding bound 5 allows; with
// bound 7 the harness exceeded 14 GB) ----
// @harness name=c04_tataw_m00 prop=C04 tier=thorough timeout=1200
worker_harness!(c04_tataw_m00, 2, 0, sh_tataw, 1);
// @harness name=c04_tataw_m01 prop=C04 tier=thorough timeout=1200
worker_harness!(c04_tataw_m01, 2, 1, sh_tataw, 1);
// @harness name=c04_tataw_m02 prop=C04 tier=thorough timeout=1200
worker_harness!(c04_tataw_m02, 2, 2, sh_tataw, 1);
// @harness name=c04_tataw_m04 prop=C04 tier=thorough timeout=1200
worker_harness!(c04_tataw_m04, 2, 4, sh_tataw, 1);
// @harness name=c04_tataw_m05 prop=C04 tier=thorough timeout=1200
worker_harness!(c04_tataw_m05, 2, 5, sh_tataw, 1);
// @harness name=c04_tataw_m06 prop=C04 tier=thorough timeout=1200
worker_harness!(c04_tataw_m06, 2, 6, sh_tataw, 1);
// @harness name=c04_tataw_m08 prop=C04 tier=thorough timeout=1200
worker_harness!(c04_tataw_m08, 2, 8, sh_tataw, 1);
// @harness name=c04_tataw_m09 prop=C04 tier=thorough timeout=1200
worker_harness!(c04_tataw_m09, 2, 9, sh_tataw, 1);
// @harness name=c04_tataw_m10 prop=C04 tier=thorough timeout=1200
worker_harness!(c04_tataw_m10, 2, 10, sh_tataw, 1);
// @harness name=c04_tataw_m12 prop=C04 tier=thorough timeout=1200
worker_harness!(c04_tataw_m12, 2, 12, sh_tataw, 1);
// @harness name=c04_tataw_m13 prop=C04 tier=thorough timeout=1200
worker_harness!(c04_tataw_m13, 2, 13, sh_tataw, 1);
// @harness name=c04_tataw_m14 prop=C04 tier=thorough timeout=1200
worker_harness!(c04_tataw_m14, 2, 14, sh_tataw, 1);

// ---- c08_awr: 3 requests, 4 batching schedules ----
// @harness name=c08_awr_m00 prop=C08 tier=quick timeout=1200
worker_harness!(c08_awr_m00, 1, 0, sh_awr, 1);
// @harness name=c08_awr_m01 prop=C08 tier=quick timeout=1200
worker_harness!(c08_awr_m01, 1, 1, sh_awr, 1);
// @harness name=c08_awr_m02 prop=C08 tier=quick timeout=1200
worker_harness!(c08_awr_m02, 1, 2, sh_awr, 1);
// @harness name=c08_awr_m03 prop=C08 tier=quick timeout=1200
worker_harness!(c08_awr_m03, 1, 3, sh_awr, 1);

// ---- c08_awrw: 4 requests, 8 batching schedules ----
// @harness name=c08_awrw_m00 prop=C08 tier=quick timeout=1200
worker_harness!(c08_awrw_m00, 2, 0, sh_awrw, 2);
// @harness name=c08_awrw_m01 prop=C08 tier=quick timeout=1200
worker_harness!(c08_awrw_m01, 2, 1, sh_awrw, 2);
// @harness name=c08_awrw_m02 prop=C08 tier=quick timeout=1200
worker_harness!(c08_awrw_m02, 2, 2, sh_awrw, 2);
// @harness name=c08_awrw_m03 prop=C08 tier=quick timeout=1200
worker_harness!(c08_awrw_m03, 2, 3, sh_awrw, 2);
// @harness name=c08_awrw_m04 prop=C08 tier=quick timeout=1200
worker_harness!(c08_awrw_m04, 2, 4, sh_awrw, 2);
// @harness name=c08_awrw_m05 prop=C08 tier=quick timeout=1200
worker_harness!(c08_awrw_m05, 2, 5, sh_awrw, 2);
// @harness name=c08_awrw_m06 prop=C08 tier=quick timeout=1200
worker_harness!(c08_awrw_m06, 2, 6, sh_awrw, 2);
// @harness name=c08_awrw_m07 prop=C08 tier=quick timeout=1200
worker_harness!(c08_awrw_m07, 2, 7, sh_awrw, 2);

// ---- c08_aawr2: 4 requests, 8 batching schedules ----
// @harness name=c08_aawr2_m00 prop=C08 tier=thorough timeout=1200
worker_harness!(c08_aawr2_m00, 1, 0, sh_aawr2, 1);
// @harness name=c08_aawr2_m01 prop=C08 tier=thorough timeout=1200
worker_harness!(c08_aawr2_m01, 1, 1, sh_aawr2, 1);
// @harness name=c08_aawr2_m02 prop=C08 tier=thorough timeout=1200
worker_harness!(c08_aawr2_m02, 1, 2, sh_aawr2, 1);
// @harness name=c08_aawr2_m03 prop=C08 tier=thorough timeout=1200
worker_harness!(c08_aawr2_m03, 1, 3, sh_aawr2, 1);
// @harness name=c08_aawr2_m04 prop=C08 tier=thorough timeout=1200
worker_harness!(c08_aawr2_m04, 1, 4, sh_aawr2, 1);
// @harness name=c08_aawr2_m05 prop=C08 tier=thorough timeout=1200
worker_harness!(c08_aawr2_m05, 1, 5, sh_aawr2, 1);
// @harness name=c08_aawr2_m06 prop=C08 tier=thorough timeout=1200
worker_harness!(c08_aawr2_m06, 1, 6, sh_aawr2, 1);
// @harness name=c08_aawr2_m07 prop=C08 tier=thorough timeout=1200
worker_harness!(c08_aawr2_m07, 1, 7, sh_aawr2, 1);

// ---- c08_tawrw: 5 requests, 16 batching schedules ---- (masks 3, 7, 11, 15 put more requests into one batch than the unwinding bound 5 allows: removed, as for c04_tataw)
// @harness name=c08_tawrw_m00 prop=C08 tier=thorough timeout=1200
worker_harness!(c08_tawrw_m00, 2, 0, sh_tawrw, 2);
// @harness name=c08_tawrw_m01 prop=C08 tier=thorough timeout=1200
worker_harness!(c08_tawrw_m01, 2, 1, sh_tawrw, 2);
// @harness name=c08_tawrw_m02 prop=C08 tier=thorough timeout=1200
worker_harness!(c08_tawrw_m02, 2, 2, sh_tawrw, 2);
// @harness name=c08_tawrw_m04 prop=C08 tier=thorough timeout=1200
worker_harness!(c08_tawrw_m04, 2, 4, sh_tawrw, 2);
// @harness name=c08_tawrw_m05 prop=C08 tier=thorough timeout=1200
worker_harness!(c08_tawrw_m05, 2, 5, sh_tawrw, 2);
// @harness name=c08_tawrw_m06 prop=C08 tier=thorough timeout=1200
worker_harness!(c08_tawrw_m06, 2, 6, sh_tawrw, 2);
// @harness name=c08_tawrw_m08 prop=C08 tier=thorough timeout=1200
worker_harness!(c08_tawrw_m08, 2, 8, sh_tawrw, 2);
// @harness name=c08_tawrw_m09 prop=C08 tier=thorough timeout=1200
worker_harness!(c08_tawrw_m09, 2, 9, sh_tawrw, 2);
// @harness name=c08_tawrw_m10 prop=C08 tier=thorough timeout=1200
worker_harness!(c08_tawrw_m10, 2, 10, sh_tawrw, 2);
// @harness name=c08_tawrw_m12 prop=C08 tier=thorough timeout=1200
worker_harness!(c08_tawrw_m12, 2, 12, sh_tawrw, 2);
// @harness name=c08_tawrw_m13 prop=C08 tier=thorough timeout=1200
worker_harness!(c08_tawrw_m13, 2, 13, sh_tawrw, 2);
// @harness name=c08_tawrw_m14 prop=C08 tier=thorough timeout=1200
worker_harness!(c08_tawrw_m14, 2, 14, sh_tawrw, 2);

