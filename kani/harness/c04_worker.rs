// @anchor src/raft_log/wal/flush_worker.rs
//! C04 (flush acknowledgement soundness) and C08(a) (unlink only after the
//! purge is durable) on the real `FlushWorker::run_inner`,
//! `sync_all_files`, `handle_non_flush_request`.
//!
//! The request script of each harness is a concrete *shape* from the grammar
//! of what `RaftLog::flush` / `try_close_full_chunk` emit (checked by the
//! c04b_* harnesses): flush -> W[,R]; rotation -> [Wtail,] A. The batching
//! schedule (which try_recv calls answer Empty although a request is queued,
//! = the caller enqueues it a moment later) is a concrete bit mask, and every
//! mask of a shape is its own harness (exhaustive for that shape). Symbolic in
//! every harness: data lengths, head lengths of new files, and the failure of
//! any write / fdatasync (at most MAXF failures per run).
//!
//! Ghost truth (kani_support::ghost_fs): per file `len` and `synced_len` =
//! length at the last *successful* sync. The monitors (ghost_chan::cb_fire,
//! unlink_monitor) look at ghost truth, not at the worker's bookkeeping:
//!  C04(1,5) an Ok callback implies every byte journalled at or before that
//!           flush is written and covered by a successful sync of its file;
//!  C04(2,3) callbacks fire at most once and in request order;
//!  C04(4)   without an injected failure every callback fires exactly once, Ok;
//!  C08(a)   at every unlink the Write queued before the RemoveChunks (it
//!           carries the purge record) is durably synced; unlinks are
//!           oldest-first.
use super::*;
use crate::kani_support::ghost_chan as gc;
use crate::kani_support::ghost_fs as gfs;
use crate::kani_support::ktypes::*;
use crate::raft_log::wal::flush_request::WriteRequest;
use super::kani_h_a_worker::*;

const NF: usize = gfs::NFILES;

/// running "journalled so far" per file while the script is built
static mut CUR: [u64; NF] = [0; NF];
static mut TARGET: usize = 0;
static mut NPUSH: usize = 0;

pub(crate) struct Setup {
    tx: gc::SyncSender<SeqRequest<KTypes>>,
    worker: FlushWorker<KTypes>,
    files: [Option<Arc<File>>; NF],
}

fn mk_file(slot: usize, chunk_id: u64, head: u64) -> Arc<File> {
    let g = gfs::fs();
    g.files[slot].used = true;
    g.files[slot].exists = true;
    g.files[slot].chunk_id = chunk_id;
    g.files[slot].len = head;
    g.files[slot].pos = head;
    g.files[slot].synced_len = 0;
    let f = Arc::new(gfs::mk_file(slot));
    // never reach close(): keep one reference alive for ever
    core::mem::forget(f.clone());
    f
}

fn setup(fmask: u32, mask: u32) -> Setup {
    let g = gfs::fs();
    g.faults = false;
    g.fault_mask = fmask;
    unsafe {
        gc::sched::BREAK_MASK = mask;
    }
    gc::mon().on = true;
    let head0: u64 = kani::any();
    kani::assume(head0 >= 1 && head0 <= 3);
    let f0 = mk_file(0, 0, head0);
    unsafe {
        CUR[0] = head0;
        TARGET = 0;
    }
    let (tx, rx) = gc::sync_channel::<SeqRequest<KTypes>>(1024);
    let cache = Arc::new(RwLock::new(PayloadCache::<KTypes>::new(4, 16)));
    let done = Arc::new(AtomicU64::new(0));
    let fe = FileEntry::<KTypes>::new(0, f0.clone(), None);
    let worker = FlushWorker::new(rx, fe, cache, done);
    Setup { tx, worker, files: [Some(f0), None, None, None] }
}

fn data_of(d: u8) -> Vec<u8> {
    let mut v: Vec<u8> = Vec::with_capacity(2);
    if d >= 1 {
        v.push(0xAA);
    }
    if d >= 2 {
        v.push(0xBB);
    }
    v
}

/// queue a Write with symbolic data length; `cb` = carries a callback
fn push_w(s: &Setup, cb: bool) {
    // concrete data length (alternating 1, 2, 0): a symbolic length makes
    // write_all's "wrote 0 bytes" error path, and with it the drop glue of the
    // whole worker, reachable for symbolic execution at every write
    let d: u8 = unsafe { ((NPUSH + 1) % 3) as u8 };
    unsafe {
        let j = NPUSH;
        CUR[TARGET] += d as u64;
        gc::mon().need[j] = CUR;
        let req = WorkerRequest::Write(WriteRequest::<KTypes> {
            upto_offset: CUR[TARGET],
            data: data_of(d),
            sync: true,
            callback: if cb { Some(GhostCb { id: j as u8 }) } else { None },
        });
        let _ = s.tx.send(SeqRequest { seq: (j + 1) as u64, req });
        NPUSH += 1;
    }
}

/// queue an AppendFile for a new chunk file (already created and its head
/// record written, unsynced, by the caller thread)
fn push_a(s: &mut Setup, slot: usize) {
    let head: u64 = kani::any();
    kani::assume(head >= 1 && head <= 3);
    unsafe {
        let start = gfs::fs().files[TARGET].chunk_id + CUR[TARGET];
        let f = mk_file(slot, start, head);
        s.files[slot] = Some(f.clone());
        let j = NPUSH;
        TARGET = slot;
        CUR[slot] = head;
        gc::mon().need[j] = CUR;
        let req = WorkerRequest::AppendFile(FileEntry::<KTypes>::new(start, f, None));
        let _ = s.tx.send(SeqRequest { seq: (j + 1) as u64, req });
        NPUSH += 1;
    }
}

/// queue RemoveChunks for ghost slot(s) (oldest first, as `purge` pops them)
fn push_r(s: &Setup, slot_a: usize, slot_b: Option<usize>) {
    unsafe {
        let j = NPUSH;
        gc::mon().last_w_before_r = j - 1;
        gc::mon().need[j] = CUR;
        let mut paths: Vec<String> = Vec::with_capacity(2);
        paths.push(gfs::path_of_slot(slot_a));
        if let Some(b) = slot_b {
            paths.push(gfs::path_of_slot(b));
        }
        let req = WorkerRequest::RemoveChunks { chunk_paths: paths };
        let _ = s.tx.send(SeqRequest { seq: (j + 1) as u64, req });
        NPUSH += 1;
    }
}

/// run the real worker to the end of the script and evaluate the end-of-run
/// monitors. `ncb` = number of callbacks in the script.
fn finish(s: Setup, ncb: u8) {
    let Setup { tx, worker, files } = s;
    let res = run_worker(worker);
    let worker_ok = crate::kani_support::common::is_ok(res);
    let g = gfs::fs();
    let m = gc::mon();
    // (4) no I/O error => every callback fired exactly once, with Ok
    if g.n_faults == 0 {
        assert!(worker_ok);
        assert!(m.n_cb == ncb, "without I/O errors every callback fires exactly once");
        assert!(m.n_ok == ncb);
    }
    assert!(m.n_cb <= ncb);
    kani::cover!(g.n_faults == 0 && m.n_cb == ncb, "fault-free run completes all callbacks");
    kani::cover!(g.n_faults > 0 && worker_ok, "a run with an injected sync failure that the worker survives");
    core::mem::forget(tx);
    core::mem::forget(files);
}

macro_rules! worker_harness {
    ($name:ident, $maxf:expr, $mask:expr, $script:ident, $ncb:expr) => {
        #[kani::proof]
        #[kani::unwind(5)]
        #[kani::stub(alloc::fmt::format, crate::kani_support::stubs::fmt_format)]
        #[kani::stub(core::fmt::write, crate::kani_support::stubs::fmt_write)]
        #[kani::stub(<core::io::CustomOwner as core::ops::Drop>::drop, crate::kani_support::stubs::custom_owner_drop)]
        #[kani::stub(<std::io::Error as core::fmt::Display>::fmt, crate::kani_support::stubs::io_error_display)]
        #[kani::stub(<std::io::Error as core::fmt::Debug>::fmt, crate::kani_support::stubs::io_error_display)]
        #[kani::stub(<&std::fs::File as std::io::Write>::write, crate::kani_support::stubs::file_write)]
        #[kani::stub(std::fs::File::sync_data, crate::kani_support::stubs::file_sync_data)]
        #[kani::stub(std::fs::File::metadata, crate::kani_support::stubs::file_metadata)]
        #[kani::stub(std::fs::remove_file, crate::kani_support::stubs::remove_file)]
        fn $name() {
            let mut s = setup($maxf, $mask);
            $script(&mut s);
            finish(s, $ncb);
        }
    };
}

// ---- shapes ----
/// one flush
fn sh_w(s: &mut Setup) { push_w(s, true); }
/// two flushes (batched or not)
fn sh_ww(s: &mut Setup) { push_w(s, true); push_w(s, true); }
/// flush, rotation with pending tail, flush
fn sh_wtaw(s: &mut Setup) { push_w(s, true); push_w(s, false); push_a(s, 1); push_w(s, true); }
/// rotation with tail, then two flushes: the shape in which an older file's
/// failed sync must not be forgotten
fn sh_taww(s: &mut Setup) { push_w(s, false); push_a(s, 1); push_w(s, true); push_w(s, true); }
/// rotation without pending tail, two flushes
fn sh_aww(s: &mut Setup) { push_a(s, 1); push_w(s, true); push_w(s, true); }
/// two rotations, then a flush
fn sh_tataw(s: &mut Setup) { push_w(s, false); push_a(s, 1); push_w(s, false); push_a(s, 2); push_w(s, true); }
/// rotation, flush + remove of the oldest closed chunk
fn sh_awr(s: &mut Setup) { push_a(s, 1); push_w(s, true); push_r(s, 0, None); }
/// rotation with tail, flush, remove, flush
fn sh_tawrw(s: &mut Setup) { push_w(s, false); push_a(s, 1); push_w(s, true); push_r(s, 0, None); push_w(s, true); }
/// two closed chunks removed by one request, oldest first
fn sh_aawr2(s: &mut Setup) { push_a(s, 1); push_a(s, 2); push_w(s, true); push_r(s, 0, Some(1)); }
/// remove while the next flush is already queued
fn sh_awrw(s: &mut Setup) { push_a(s, 1); push_w(s, true); push_r(s, 0, None); push_w(s, true); }

// @harness name=zz_c04_probe_f0 prop=PROBE tier=never timeout=600
worker_harness!(zz_c04_probe_f0, 0, 0, sh_taww, 2);
// @harness name=zz_c04_probe_f2 prop=PROBE tier=never timeout=600
worker_harness!(zz_c04_probe_f2, 0b1010, 0, sh_taww, 2);

#[inline(never)]
fn probe_const_v(x: usize) { let mut i = 0; while i < x { i += 1; } }
#[inline(never)]
fn probe_const_a(x: usize) { let mut i = 0; while i < x { i += 1; } }
#[inline(never)]
fn probe_const_b(x: usize) { let mut i = 0; while i < x { i += 1; } }
#[inline(never)]
fn probe_const_c(x: usize) { let mut i = 0; while i < x { i += 1; } }

// @harness name=zz_c04_probe_variant prop=PROBE tier=never timeout=300
#[kani::proof]
#[kani::unwind(12)]
fn zz_c04_probe_variant() {
    let mut s = setup(0, 0);
    sh_taww(&mut s);
    let Setup { tx, worker, files } = s;
    let rx = &worker.rx;
    probe_const_a(tx.ghost_sent() + 1);
    probe_const_b(rx.ghost_pending() + 1);
    probe_const_c(gc::tag_at(0, 0) as usize + 1);
    let r = rx.recv();
    match r {
        Ok(SeqRequest { seq: _, req }) => {
            let v = match &req {
                WorkerRequest::AppendFile(_) => 3,
                WorkerRequest::RemoveChunks { .. } => 5,
                WorkerRequest::Write(_) => 7,
                WorkerRequest::GetFlushStat { .. } => 9,
            };
            probe_const_v(v);
            core::mem::forget(req);
        }
        Err(_) => probe_const_v(11),
    }
    core::mem::forget(tx);
    core::mem::forget(files);
    core::mem::forget(worker);
}
