//! C11 — the on-disk journal is an exact, gap-free record of accepted writes
//! (the parts within reach: segment/offset bookkeeping of one accepted write,
//! the rotation step, the "full" decision, the reported on-disk size).
use crate::ChunkId;
use crate::RaftLog;
use crate::WALRecord;
use crate::api::raft_log_writer::RaftLogWriter;
use crate::kani_support::common::*;
use crate::kani_support::env_proof;
use crate::kani_support::ghost_fs as gfs;
use crate::kani_support::ktypes::*;
use crate::kani_support::model::*;
use codeq::Decode;
use codeq::OffsetSize;

fn pend(rl: &RaftLog<KTypes>) -> usize {
    crate::chunk::open_chunk::kani_h_a_open_chunk::pending_len(&rl.wal.open)
}

// One accepted write (vote / append / commit): the returned segment starts at
// the previous journal end, its size is exactly the number of bytes appended
// to the journal buffer, the journal end advances by that size, and one more
// record is counted in the open chunk.
// @harness name=c11_segment_append prop=C11 tier=quick timeout=1500
env_proof! {
    unwind = 6, rot = ghost, crc = off,
    fn c11_segment_append() {
        let cfg = mk_config(None, None, None, None);
        let mut rl: RaftLog<KTypes> = open_empty(cfg);
        let m = Model::any_reachable();
        inject(&mut rl, &m);
        // the open chunk may sit anywhere in the journal (earlier chunks closed
        // and already purged away): shift its offsets by a symbolic base
        let base: u32 = kani::any();
        let mut k = 0;
        while k < 2 {
            if k < rl.wal.open.chunk.global_offsets.len() {
                rl.wal.open.chunk.global_offsets[k] += base as u64;
            }
            k += 1;
        }
        assert!(rl.on_disk_size() == rl.wal.open.chunk.chunk_size(), "on_disk_size with no closed chunk is the open chunk's size");
        let end0 = rl.wal.open.chunk.global_end();
        let p0 = pend(&rl);
        let n0 = rl.wal.open.chunk.records_count();
        let size0 = rl.on_disk_size();
        let id: Id = kani::any();
        kani::assume(id.1 < 250);
        let which: bool = kani::any();
        let r = if which { rl.append([(id, kani::any())]) } else { rl.commit(id) };
        match r {
            Ok(seg) => {
                assert!(seg.offset().0 == end0, "segment does not start at the previous journal end");
                assert!(*seg.size() == (pend(&rl) - p0) as u64, "segment size differs from the bytes journalled");
                assert!(rl.wal.open.chunk.global_end() == end0 + *seg.size(), "journal end not advanced by the record size");
                assert!(rl.wal.open.chunk.records_count() == n0 + 1);
                assert!(rl.on_disk_size() == size0 + *seg.size(), "on_disk_size is not oldest chunk start .. journal end");
                kani::cover!(which, "append accepted");
                kani::cover!(!which, "commit accepted");
            }
            Err(e) => core::mem::forget(e),
        }
        core::mem::forget(rl);
    }
}

// The "full" decision: closed as soon as the record count OR the size reaches
// its limit (limits symbolic, including 0 and 1).
// @harness name=c11_full_decision prop=C11 tier=quick timeout=900
env_proof! {
    unwind = 6, crc = off,
    fn c11_full_decision() {
        let max_r: usize = kani::any();
        let max_s: usize = kani::any();
        let cfg = mk_config(Some(max_r), Some(max_s), None, None);
        let rl: RaftLog<KTypes> = open_empty(cfg);
        let n = rl.wal.open.chunk.records_count();
        let sz = rl.wal.open.chunk.chunk_size() as usize;
        assert!(n == 1 && sz > 0);
        let full = rl.wal.is_open_chunk_full();
        assert!(full == (n >= max_r || sz >= max_s), "chunk-full decision differs from the configured limits");
        kani::cover!(full && max_r > 1, "full by size");
        kani::cover!(full && max_r == 1, "full by record count 1");
        kani::cover!(!full, "not full");
        core::mem::forget(rl);
    }
}

// Rotation step: after a write that makes the chunk full, the old chunk is
// closed under its own id, the new chunk's id (= file name) is the old
// chunk's end, it starts with a State record equal to the state at that
// moment, consecutive chunks abut, the old tail is queued before the new
// file, and on_disk_size spans both.
// @harness name=c11_rotation prop=C11 tier=quick timeout=2400
env_proof! {
    unwind = 6, rot = ghost, crc = off,
    fn c11_rotation() {
        let cfg = mk_config(None, None, None, None);
        let mut rl: RaftLog<RTypes> = open_empty(cfg);
        let old_id = rl.wal.open.chunk.chunk_id();
        let v: Id = kani::any();
        unsafe { crate::raft_log::wal::kani_h_a_wal::ROTATE_NOW = true; }
        let r = rl.save_vote(v);
        unsafe { crate::raft_log::wal::kani_h_a_wal::ROTATE_NOW = false; }
        let seg = match r {
            Ok(s) => s,
            Err(e) => { core::mem::forget(e); assert!(false, "vote on an empty store refused"); return; }
        };
        // old chunk closed under its id; the vote record is its last record
        let closed = rl.wal.closed.get(&old_id);
        assert!(closed.is_some(), "full chunk not closed");
        let c = closed.unwrap();
        let old_end = c.chunk.global_end();
        assert!(c.chunk.records_count() == 2);
        assert!(c.state.vote == Some(v), "closed chunk's state snapshot is not the state at rotation");
        // new chunk abuts and is named by its offset
        let new_id = rl.wal.open.chunk.chunk_id();
        assert!(new_id == ChunkId(old_end), "new chunk id is not the old chunk's end");
        assert!(rl.wal.open.chunk.global_start() == old_end);
        assert!(rl.wal.open.chunk.records_count() == 1, "new chunk does not start with exactly the state record");
        // returned segment: the vote record itself, the last record of the
        // chunk that was just closed (before the C11 fix in /repo the head
        // snapshot of the new chunk was reported instead)
        assert!(seg.offset().0 + *seg.size() == old_end, "the segment returned by the write that filled the chunk is not where its record is");
        assert!(seg.offset().0 == c.chunk.global_offsets[1], "the segment returned by the write that filled the chunk does not start at its record");
        assert!(rl.on_disk_size() == rl.wal.open.chunk.global_end() - old_id.0);
        // the new file exists in the ghost directory under that id and its
        // head record decodes to the state at rotation
        let slot = gfs::find_chunk(old_end);
        assert!(slot.is_some(), "no file created for the new chunk id");
        let f = &gfs::fs().files[slot.unwrap()];
        assert!(f.exists && f.len == rl.wal.open.chunk.global_end() - old_end && f.len > 0, "head record not written to the new file");
        // worker hand-off: tail Write of the old chunk, then AppendFile
        assert!(crate::raft_log::wal::kani_h_a_wal::queue_sent(&rl.wal) == 2, "rotation must queue the old tail and the new file");
        kani::cover!(true, "rotation happened");
        core::mem::forget(rl);
    }
}

// The bytes journalled for one accepted write are exactly the canonical frame
// of that record - the layout `kani_support::image::Img` writes, i.e. the files
// the replay harnesses (C02, C03, C05, C09, C10) start from are what a store
// puts on disk - and they sit at the returned segment.
fn journal_bytes(kind: u8) {
    use crate::kani_support::image::Img;
    let cfg = mk_config(None, None, None, None);
    let mut rl: RaftLog<RTypes> = open_empty(cfg);
    let p0 = crate::chunk::open_chunk::kani_h_a_open_chunk::pending_len(&rl.wal.open);
    let id: Id = kani::any();
    kani::assume(id.1 < 250);
    let b: u8 = kani::any();
    let mut im = Img::new(3, 0);
    let r = match kind {
        0 => { im.vote(id); rl.save_vote(id) }
        1 => { im.append(id, PR::new(2, b)); rl.append([(id, PR::new(2, b))]) }
        2 => { im.commit(id); rl.commit(id) }
        _ => { im.purge(id); rl.purge(id) }
    };
    let seg = match r {
        Ok(s) => s,
        Err(e) => { core::mem::forget(e); assert!(false, "write on an empty store refused"); return; }
    };
    let n = im.pos;
    let pending = crate::chunk::open_chunk::kani_h_a_open_chunk::pending(&rl.wal.open);
    assert!(pending.len() == p0 + n, "number of bytes journalled differs from the canonical frame length");
    assert!(*seg.size() == n as u64, "segment size differs from the frame length");
    let mut i = 0;
    while i < 20 {
        if i < n {
            assert!(pending[p0 + i] == gfs::bytes(3)[i], "journalled byte differs from the canonical frame");
        }
        i += 1;
    }
    kani::cover!(true, "frame compared");
    core::mem::forget(rl);
}

// @harness name=c11_journal_bytes_vote prop=C11 tier=quick timeout=1200 fs=128
env_proof! { unwind = 22, rot = ghost, crc = real, fn c11_journal_bytes_vote() { journal_bytes(0); } }
// @harness name=c11_journal_bytes_append prop=C11 tier=quick timeout=1200 fs=128
env_proof! { unwind = 22, rot = ghost, crc = real, fn c11_journal_bytes_append() { journal_bytes(1); } }
// @harness name=c11_journal_bytes_commit prop=C11 tier=thorough timeout=1200 fs=128
env_proof! { unwind = 22, rot = ghost, crc = real, fn c11_journal_bytes_commit() { journal_bytes(2); } }
// @harness name=c11_journal_bytes_purge prop=C11 tier=thorough timeout=1200 fs=128
env_proof! { unwind = 22, rot = ghost, crc = real, fn c11_journal_bytes_purge() { journal_bytes(3); } }

// The Config accessors (stubbed by ghost constants in every other harness,
// DESIGN 3.4) are what their documentation says: the field, or the default.
// @harness name=c11_cfg_accessors prop=C11 tier=quick timeout=300
#[kani::proof]
fn c11_cfg_accessors() {
    let c = crate::Config {
        dir: String::new(),
        log_cache_max_items: kani::any(),
        log_cache_capacity: kani::any(),
        read_buffer_size: kani::any(),
        chunk_max_records: kani::any(),
        chunk_max_size: kani::any(),
        truncate_incomplete_record: kani::any(),
    };
    assert!(c.chunk_max_records() == c.chunk_max_records.unwrap_or(1024 * 1024));
    assert!(c.chunk_max_size() == c.chunk_max_size.unwrap_or(1024 * 1024 * 1024));
    assert!(c.log_cache_max_items() == c.log_cache_max_items.unwrap_or(100_000));
    assert!(c.log_cache_capacity() == c.log_cache_capacity.unwrap_or(1024 * 1024 * 1024));
    assert!(c.read_buffer_size() == c.read_buffer_size.unwrap_or(64 * 1024 * 1024));
    kani::cover!(c.chunk_max_records.is_none(), "default limit");
    core::mem::forget(c);
}

// The head snapshot WRITTEN to the new chunk file at a rotation is the state at
// that moment, every field of it (vote and user data present here), byte for
// byte the canonical State frame.
// @harness name=c11_rotation_head_bytes prop=C11 tier=quick timeout=1500 fs=128
env_proof! {
    unwind = 24, rot = ghost, crc = real,
    fn c11_rotation_head_bytes() {
        use crate::kani_support::image::Img;
        let cfg = mk_config(None, None, None, None);
        let mut rl: RaftLog<RTypes> = open_empty(cfg);
        gfs::fs().track_bytes = true;
        let u: u8 = kani::any();
        rl.log_state_mut().user_data = Some(u);
        let v: Id = kani::any();
        unsafe { crate::raft_log::wal::kani_h_a_wal::ROTATE_NOW = true; }
        let r = rl.save_vote(v);
        unsafe { crate::raft_log::wal::kani_h_a_wal::ROTATE_NOW = false; }
        assert!(is_ok(r), "vote on an empty store refused");
        let new_id = rl.wal.open.chunk.chunk_id();
        let slot = gfs::find_chunk(new_id.0);
        assert!(slot.is_some(), "no file created for the new chunk id");
        let slot = slot.unwrap();
        let mut im = Img::new(3, 0);
        im.state(Some(v), None, None, None, Some(u));
        let n = im.pos;
        assert!(gfs::fs().files[slot].len == n as u64, "head snapshot has a different length than the canonical frame of the current state");
        let mut i = 0;
        while i < 22 {
            if i < n {
                assert!(gfs::bytes(slot)[i] == gfs::bytes(3)[i], "head snapshot of the new chunk differs from the state at rotation");
            }
            i += 1;
        }
        kani::cover!(true, "head snapshot compared");
        core::mem::forget(rl);
    }
}
