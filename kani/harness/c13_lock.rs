// @anchor src/file_lock.rs
//! C13 — a directory is owned by at most one store or dump at a time: the
//! code-side obligation. Mutual exclusion itself is the kernel's flock (ghost
//! table: one holder per lock file, EWOULDBLOCK otherwise). raft-log must take
//! the lock before touching anything, fail when it is refused, hold it for the
//! owner's lifetime and release it on drop. Real code: FileLock::new, Drop for
//! FileLock, RaftLog::open, Dump::new.
use super::*;
use crate::kani_support::ghost_fs as gfs;
use crate::kani_support::ktypes::*;
use crate::kani_support::stubs;

fn cfg() -> Arc<Config> {
    crate::kani_support::common::mk_config(None, None, None, None)
}

macro_rules! lock_proof {
    (unwind = $u:expr, fn $name:ident() $body:block) => {
        #[kani::proof]
        #[kani::unwind($u)]
        #[kani::stub(alloc::fmt::format, stubs::fmt_format)]
        #[kani::stub(core::fmt::write, stubs::fmt_write)]
        #[kani::stub(<core::io::CustomOwner as core::ops::Drop>::drop, stubs::custom_owner_drop)]
        #[kani::stub(<std::io::Error as core::fmt::Display>::fmt, stubs::io_error_display)]
        #[kani::stub(<std::io::Error as core::fmt::Debug>::fmt, stubs::io_error_display)]
        #[kani::stub(<std::os::fd::OwnedFd as core::ops::Drop>::drop, stubs::owned_fd_drop)]
        #[kani::stub(std::fs::OpenOptions::open, stubs::open_lock_file)]
        #[kani::stub(<std::fs::File as fs2::FileExt>::try_lock_exclusive, stubs::try_lock_exclusive)]
        #[kani::stub(<std::fs::File as fs2::FileExt>::unlock, stubs::flock_unlock)]
        #[kani::stub(std::fs::remove_file, stubs::remove_lock_file)]
        // not reached when the lock is refused, but statically reachable from RaftLog::open
        #[kani::stub(crate::raft_log::wal::flush_worker::FlushWorker::spawn, crate::raft_log::wal::flush_worker::kani_h_a_worker::stub_spawn)]
        #[kani::stub(crate::raft_log::raft_log::RaftLog::load_chunk_ids, crate::raft_log::raft_log::kani_h_a_raftlog::stub_load_chunk_ids)]
        #[kani::stub(crate::config::Config::chunk_path, stubs::chunk_path)]
        #[kani::stub(crate::chunk::Chunk::open_chunk_file, stubs::open_chunk_file)]
        #[kani::stub(crc32fast::Hasher::new, stubs::crc_new)]
        #[kani::stub(crc32fast::Hasher::update, stubs::crc_update_noop)]
        #[kani::stub(<&std::fs::File as std::io::Write>::write, stubs::file_write)]
        #[kani::stub(<&std::fs::File as std::io::Read>::read, stubs::file_read)]
        #[kani::stub(std::fs::File::sync_all, stubs::file_sync_all)]
        #[kani::stub(std::fs::File::set_len, stubs::file_set_len)]
        #[kani::stub(std::fs::File::metadata, stubs::file_metadata)]
        #[kani::stub(std::fs::Metadata::len, stubs::metadata_len)]
        #[kani::stub(<std::fs::File as std::os::unix::fs::FileExt>::read_at, stubs::file_read_at)]
        fn $name() $body
    };
}

// @harness name=c13_lock_cycle prop=C13 tier=quick timeout=900
lock_proof! {
    unwind = 8,
    fn c13_lock_cycle() {
        // first owner
        let l1 = FileLock::new(cfg());
        let l1 = match l1 {
            Ok(l) => l,
            Err(e) => {
                core::mem::forget(e);
                assert!(false, "first lock attempt on a free directory fails");
                return;
            }
        };
        assert!(stubs::flock_holder().is_some(), "owner does not hold the flock");
        // second contender while the first is alive: refused
        match FileLock::new(cfg()) {
            Ok(l2) => {
                core::mem::forget(l2);
                assert!(false, "two live owners of one directory");
            }
            Err(e) => {
                kani::cover!(true, "second attempt refused");
                core::mem::forget(e);
            }
        }
        // the refused attempt must not have disturbed the owner's lock
        assert!(stubs::flock_holder().is_some(), "refused attempt released the owner's lock");
        // ... nor the lock FILE: a third contender (the owner still alive) is
        // refused too and never becomes a second owner
        match FileLock::new(cfg()) {
            Ok(l2) => {
                core::mem::forget(l2);
                assert!(false, "two live owners of one directory (third attempt after a refused one)");
            }
            Err(e) => {
                kani::cover!(true, "third attempt refused");
                core::mem::forget(e);
            }
        }
        assert!(stubs::flock_holders() == 1, "more than one lock holder for one directory");
        assert!(unsafe { stubs::LOCK_UNLINKS } == 0, "the LOCK file of a live owner was unlinked");
        // owner dropped: next attempt succeeds
        drop(l1);
        assert!(stubs::flock_holder().is_none(), "lock still held after the owner was dropped");
        match FileLock::new(cfg()) {
            Ok(l3) => {
                kani::cover!(true, "re-lock after drop succeeds");
                core::mem::forget(l3);
            }
            Err(e) => {
                core::mem::forget(e);
                assert!(false, "lock attempt after the owner's drop fails");
            }
        }
    }
}

// A refused RaftLog::open / Dump::new returns Err before any chunk file is
// touched (ghost fs call counter unchanged, no file opened or created).
// @harness name=c13_open_refused prop=C13 tier=quick timeout=900 fs=512
lock_proof! {
    // 10: should the open go ahead (it must not), reading the chunk needs it -
    // a violation then shows as a failed assertion, not as a too-small bound
    unwind = 10,
    fn c13_open_refused() {
        stubs::foreign_owner();
        // the directory holds a chunk whose last record is torn: an open that
        // went ahead would cut it
        let mut im = crate::kani_support::image::Img::new(0, 0);
        im.state(None, None, None, None, None);
        let e1 = im.commit(kani::any());
        im.vote(kani::any());
        im.commit_len();
        gfs::fs().files[0].len = (e1 + 5) as u64;
        let before = gfs::fs().stamp;
        match crate::RaftLog::<RTypes>::open(cfg()) {
            Ok(rl) => {
                core::mem::forget(rl);
                assert!(false, "open succeeds on a directory that is locked by another owner");
            }
            Err(e) => {
                kani::cover!(true, "open refused");
                core::mem::forget(e);
            }
        }
        match crate::Dump::<RTypes>::new(cfg()) {
            Ok(d) => {
                core::mem::forget(d);
                assert!(false, "Dump::new succeeds on a directory that is locked by another owner");
            }
            Err(e) => {
                kani::cover!(true, "dump refused");
                core::mem::forget(e);
            }
        }
        assert!(gfs::fs().stamp == before, "a refused open touched chunk files");
        let f = &gfs::fs().files[0];
        assert!(f.n_set_len == 0 && f.n_open == 0 && f.len == (e1 + 5) as u64, "a refused open read or modified a chunk file");
        assert!(stubs::flock_holder() == Some(999));
    }
}
