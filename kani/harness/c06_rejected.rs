//! C06 — rejected writes leave no trace. From an arbitrary reachable
//! in-memory state (kani_support::model), one public write whose arguments the
//! sequential specification rejects; the call must return Err and leave
//! everything observable unchanged: state, live index, cache content and
//! statistics, and the journal (pending bytes, record offsets, requests queued
//! for the worker) — so that flush + restart replays an unchanged journal.
use crate::RaftLog;
use crate::api::raft_log_writer::RaftLogWriter;
use crate::kani_support::common::*;
use crate::kani_support::env_proof;
use crate::kani_support::ktypes::*;
use crate::kani_support::model::*;

struct Snap {
    pending: usize,
    records: usize,
    queued: usize,
    items: u64,
    size: u64,
}

fn snap(rl: &RaftLog<KTypes>) -> Snap {
    let st = rl.stat();
    let s = Snap {
        pending: crate::chunk::open_chunk::kani_h_a_open_chunk::pending_len(&rl.wal.open),
        records: rl.wal.open.chunk.records_count(),
        queued: crate::raft_log::wal::kani_h_a_wal::queue_sent(&rl.wal),
        items: st.payload_cache_item_count,
        size: st.payload_cache_size,
    };
    core::mem::forget(st);
    s
}

fn mk() -> (RaftLog<KTypes>, Model, Snap) {
    let cfg = mk_config(None, None, None, None);
    let mut rl: RaftLog<KTypes> = open_empty(cfg);
    let m = Model::any_reachable();
    inject(&mut rl, &m);
    let s = snap(&rl);
    (rl, m, s)
}

fn unchanged(rl: &RaftLog<KTypes>, m: &Model, before: &Snap) {
    assert_matches(rl, m);
    let after = snap(rl);
    assert!(after.pending == before.pending, "a rejected write was journalled");
    assert!(after.records == before.records, "a rejected write was journalled");
    assert!(after.queued == before.queued, "a rejected write queued work for the flush worker");
    assert!(after.items == before.items, "cache item count changed by a rejected write");
    assert!(after.size == before.size, "cache size changed by a rejected write");
    // cache content: every live payload still resident and unchanged
    assert_read(rl, m, 0, 255);
}

// @harness name=c06_vote prop=C06 tier=quick timeout=1200
env_proof! {
    unwind = 6, rot = ghost, crc = off,
    fn c06_vote() {
        let (mut rl, m, before) = mk();
        let v: Id = kani::any();
        kani::assume(!m.vote_ok(v));
        let ok = is_ok(rl.save_vote(v));
        assert!(!ok, "vote going backwards must be refused");
        unchanged(&rl, &m, &before);
        kani::cover!(true, "rejected vote");
        core::mem::forget(rl);
    }
}

// @harness name=c06_append prop=C06 tier=quick timeout=1500
env_proof! {
    unwind = 6, rot = ghost, crc = off,
    fn c06_append() {
        let (mut rl, m, before) = mk();
        let id: Id = kani::any();
        let p: P = kani::any();
        kani::assume(id.1 < 250);
        kani::assume(!m.append_ok(id));
        let ok = is_ok(rl.append([(id, p)]));
        assert!(!ok, "log id not greater than last / non-consecutive index must be refused");
        unchanged(&rl, &m, &before);
        kani::cover!(m.find(id.1 as u64).is_some(), "rejected append at a live index");
        kani::cover!(Some(id) > m.last, "rejected append with a non-consecutive index");
        core::mem::forget(rl);
    }
}

// @harness name=c06_commit prop=C06 tier=quick timeout=1200
env_proof! {
    unwind = 6, rot = ghost, crc = off,
    fn c06_commit() {
        let (mut rl, m, before) = mk();
        let id: Id = kani::any();
        kani::assume(!m.commit_ok(id));
        let ok = is_ok(rl.commit(id));
        assert!(!ok, "commit going backwards must be refused");
        unchanged(&rl, &m, &before);
        kani::cover!(true, "rejected commit");
        core::mem::forget(rl);
    }
}

// @harness name=c06_truncate prop=C06 tier=quick timeout=1200
env_proof! {
    unwind = 6, rot = ghost, crc = off,
    fn c06_truncate() {
        let (mut rl, m, before) = mk();
        let idx: u8 = kani::any();
        kani::assume(m.truncate_target(idx as u64).is_none());
        let ok = is_ok(rl.truncate(idx as u64));
        assert!(!ok, "truncate at an index that does not exist must be refused");
        unchanged(&rl, &m, &before);
        kani::cover!(true, "rejected truncate");
        kani::cover!(idx == 0 && m.purged.is_some(), "truncate(0) after a purge is refused");
        core::mem::forget(rl);
    }
}
