//! C01 — sequential log semantics: one accepted write from an arbitrary
//! reachable in-memory state (<= 2 live entries; kani_support::model), through
//! the real public operation (journal append + state machine + state),
//! compared with the reference log; then `read` of a symbolic range.
//! Inductive step: histories of any length are covered up to the capacity
//! bound, chunk rotation is cut (rot = ghost: the split decision is a ghost
//! flag, verified separately in c11_*), cache limits are the defaults (nothing
//! is evicted).
use crate::RaftLog;
use crate::api::raft_log_writer::RaftLogWriter;
use crate::kani_support::common::*;
use crate::kani_support::env_proof;
use crate::kani_support::ktypes::*;
use crate::kani_support::model::*;

fn mk() -> (RaftLog<KTypes>, Model) {
    let cfg = mk_config(None, None, None, None);
    let mut rl: RaftLog<KTypes> = open_empty(cfg);
    let m = Model::any_reachable();
    inject(&mut rl, &m);
    (rl, m)
}

fn any_range() -> (u64, u64) {
    let from: u8 = kani::any();
    let to: u8 = kani::any();
    kani::assume(from <= to);
    (from as u64, to as u64)
}

// @harness name=c01_vote prop=C01 tier=quick timeout=1200
env_proof! {
    unwind = 6, rot = ghost, crc = off,
    fn c01_vote() {
        let (mut rl, mut m) = mk();
        let v: Id = kani::any();
        let ok = is_ok(rl.save_vote(v));
        assert!(ok == m.vote_ok(v), "vote accepted/rejected differently from the reference log");
        if ok {
            m.do_vote(v);
            assert_matches(&rl, &m);
            kani::cover!(true, "vote accepted");
        }
        core::mem::forget(rl);
    }
}

// @harness name=c01_append prop=C01 tier=quick timeout=1500
env_proof! {
    unwind = 6, rot = ghost, crc = off,
    fn c01_append() {
        let (mut rl, mut m) = mk();
        let id: Id = kani::any();
        let p: P = kani::any();
        kani::assume(id.1 < 250);
        let ok = is_ok(rl.append([(id, p)]));
        assert!(ok == m.append_ok(id), "append accepted/rejected differently from the reference log");
        if ok {
            m.do_append(id, p);
            assert_matches(&rl, &m);
            let (from, to) = any_range();
            assert_read(&rl, &m, from, to);
            kani::cover!(m.n == 3, "third entry appended");
            kani::cover!(m.n == 1 && m.purged.is_none() && id.1 > 0, "first append at a non-zero index");
            kani::cover!(p.n == 0, "empty payload");
        }
        core::mem::forget(rl);
    }
}

// @harness name=c01_commit prop=C01 tier=quick timeout=1200
env_proof! {
    unwind = 6, rot = ghost, crc = off,
    fn c01_commit() {
        let (mut rl, mut m) = mk();
        let id: Id = kani::any();
        let ok = is_ok(rl.commit(id));
        assert!(ok == m.commit_ok(id), "commit accepted/rejected differently from the reference log");
        if ok {
            m.do_commit(id);
            assert_matches(&rl, &m);
            kani::cover!(true, "commit accepted");
        }
        core::mem::forget(rl);
    }
}

// save_user_data journals the WHOLE state as a State record: the Option
// pattern of the encoded state is fixed per harness (all Some / all None, the
// new user datum Some / None), values symbolic; padded-payload instantiation.
fn shaped_store(some: bool) -> (RaftLog<RTypes>, Model) {
    let cfg = mk_config(None, None, None, None);
    let mut rl: RaftLog<RTypes> = open_empty(cfg);
    let mut m = Model::any_reachable_shaped(some);
    kani::assume(m.last.is_some() == some);
    if some {
        m.last = Some(m.last.unwrap_or((0, 0)));
    } else {
        m.last = None;
    }
    inject(&mut rl, &m);
    (rl, m)
}

fn userdata(some: bool, new_some: bool) {
    let (mut rl, mut m) = shaped_store(some);
    let u: Option<u8> = if new_some { Some(kani::any()) } else { None };
    let ok = is_ok(rl.save_user_data(u));
    assert!(ok, "save_user_data is always accepted");
    m.user_data = u;
    assert_matches(&rl, &m);
    kani::cover!(true, "user data saved");
    core::mem::forget(rl);
}

// @harness name=c01_userdata prop=C01 tier=quick timeout=1200
env_proof! {
    unwind = 6, rot = ghost, crc = off,
    fn c01_userdata() { userdata(true, true); }
}
// @harness name=c01_userdata_clear prop=C01 tier=thorough timeout=1200
env_proof! {
    unwind = 6, rot = ghost, crc = off,
    fn c01_userdata_clear() { userdata(true, false); }
}
// @harness name=c01_userdata_first prop=C01 tier=thorough timeout=1200
env_proof! {
    unwind = 6, rot = ghost, crc = off,
    fn c01_userdata_first() { userdata(false, true); }
}

// @harness name=c01_truncate prop=C01 tier=quick timeout=1500
env_proof! {
    unwind = 6, rot = ghost, crc = off,
    fn c01_truncate() {
        let (mut rl, mut m) = mk();
        let idx: u8 = kani::any();
        let ok = is_ok(rl.truncate(idx as u64));
        let tgt = m.truncate_target(idx as u64);
        assert!(ok == tgt.is_some(), "truncate accepted/rejected differently from the reference log");
        if let Some(after) = tgt {
            m.do_truncate(after);
            assert_matches(&rl, &m);
            let (from, to) = any_range();
            assert_read(&rl, &m, from, to);
            kani::cover!(m.n == 1, "truncate keeps one entry");
            kani::cover!(m.n == 0 && m.last == m.purged, "truncate everything after the purged id");
        }
        core::mem::forget(rl);
    }
}

// @harness name=c01_purge prop=C01 tier=quick timeout=1500
env_proof! {
    unwind = 6, rot = ghost, crc = off,
    fn c01_purge() {
        let (mut rl, mut m) = mk();
        let upto: Id = kani::any();
        kani::assume(upto.1 < 250);
        kani::assume(m.purge_legal(upto));
        let ok = is_ok(rl.purge(upto));
        assert!(ok, "a legal purge is accepted");
        let before = m.n;
        m.do_purge(upto);
        assert_matches(&rl, &m);
        let (from, to) = any_range();
        assert_read(&rl, &m, from, to);
        kani::cover!(before == 2 && m.n == 1, "purge removes one of two entries");
        kani::cover!(before == 2 && m.n == 0 && m.last == Some(upto), "purge beyond last");
        core::mem::forget(rl);
    }
}

// truncate then append with a lower term than the removed suffix, two steps
// @harness name=c01_truncate_then_append prop=C01 tier=thorough timeout=2400
env_proof! {
    unwind = 6, rot = ghost, crc = off,
    fn c01_truncate_then_append() {
        let (mut rl, mut m) = mk();
        kani::assume(m.n == 2);
        let idx = m.e[1].0 .1;
        let ok = is_ok(rl.truncate(idx as u64));
        assert!(ok);
        m.do_truncate(Some(m.e[0].0));
        let id: Id = kani::any();
        let p: P = kani::any();
        kani::assume(id.1 < 250);
        let removed_term = m.e[1].0 .0;
        let ok = is_ok(rl.append([(id, p)]));
        assert!(ok == m.append_ok(id));
        if ok {
            m.do_append(id, p);
            assert_matches(&rl, &m);
            assert_read(&rl, &m, 0, 255);
            kani::cover!(id.0 < removed_term, "re-append with a lower term than the removed suffix");
        }
        core::mem::forget(rl);
    }
}

// chunk splitting is invisible: the append that fills the chunk (rotation
// forced right after it) leaves state, index and reads as in the reference log.
// The state is encoded into the new chunk's head record here, so its Option
// pattern is fixed per harness (all Some / all None) and `last` follows the
// entries; padded-payload instantiation (see ktypes::PN).
fn append_rotating(some: bool) {
    let (mut rl, mut m) = shaped_store(some);
    let id: Id = kani::any();
    let p: P = kani::any();
    kani::assume(id.1 < 250);
    kani::assume(m.append_ok(id));
    unsafe { crate::raft_log::wal::kani_h_a_wal::ROTATE_NOW = true; }
    let r = rl.append([(id, PR::new(p.n, p.b))]);
    unsafe { crate::raft_log::wal::kani_h_a_wal::ROTATE_NOW = false; }
    match r {
        Ok(seg) => {
            use codeq::OffsetSize;
            // C11: the returned segment is the appended record (the last one of
            // the chunk that was just closed), not the new chunk's head snapshot
            assert!(seg.offset().0 + *seg.size() == rl.wal.open.chunk.global_start(), "segment returned by the append that filled the chunk is not where its record is");
        }
        Err(e) => {
            core::mem::forget(e);
            assert!(false, "accepted append fails when it fills the chunk");
        }
    }
    m.do_append(id, p);
    assert_matches(&rl, &m);
    // every live payload is still resident after the rotation (the read path
    // through a closed chunk file is out of reach, DESIGN section 7;
    // walking it here with an untracked file costs more than the 7 GB budget)
    assert_cached(&rl, &m);
    assert!(rl.wal.closed.len() == 1, "chunk was not rotated");
    kani::cover!(true, "append with rotation");
    core::mem::forget(rl);
}

// @harness name=c01_append_rotating prop=C01 tier=quick timeout=2400
env_proof! {
    unwind = 6, rot = ghost, crc = off,
    fn c01_append_rotating() { append_rotating(true); }
}
// @harness name=c01_append_rotating_none prop=C01 tier=thorough timeout=2400
env_proof! {
    unwind = 6, rot = ghost, crc = off,
    fn c01_append_rotating_none() { append_rotating(false); }
}

// one append call with two entries: applied in order, the call stops at the
// first entry the reference log refuses and the entries before it stay
// @harness name=c01_append_two prop=C01 tier=thorough timeout=3000
env_proof! {
    unwind = 6, rot = ghost, crc = off,
    fn c01_append_two() {
        let cfg = mk_config(None, None, None, None);
        let mut rl: RaftLog<KTypes> = open_empty(cfg);
        let mut m = Model::any_reachable_n(1);
        inject(&mut rl, &m);
        let id1: Id = kani::any();
        let id2: Id = kani::any();
        let p1: P = kani::any();
        let p2: P = kani::any();
        kani::assume(id1.1 < 250 && id2.1 < 250);
        let ok = is_ok(rl.append([(id1, p1), (id2, p2)]));
        let ok1 = m.append_ok(id1);
        if ok1 {
            m.do_append(id1, p1);
        }
        let ok2 = ok1 && m.append_ok(id2);
        if ok2 {
            m.do_append(id2, p2);
        }
        assert!(ok == ok2, "two-entry append accepted/rejected differently from the reference log");
        assert_matches(&rl, &m);
        kani::cover!(ok, "both entries appended");
        kani::cover!(ok1 && !ok2, "first entry stays, second refused");
        core::mem::forget(rl);
    }
}

fn mk3() -> (RaftLog<KTypes>, Model) {
    let cfg = mk_config(None, None, None, None);
    let mut rl: RaftLog<KTypes> = open_empty(cfg);
    let m = Model::any_reachable_n(3);
    inject(&mut rl, &m);
    (rl, m)
}

// three live entries (slot capacity 4): truncate and purge
// @harness name=c01_truncate_n3 prop=C01 tier=thorough timeout=3000
env_proof! {
    unwind = 6, rot = ghost, crc = off,
    fn c01_truncate_n3() {
        let (mut rl, mut m) = mk3();
        let idx: u8 = kani::any();
        let ok = is_ok(rl.truncate(idx as u64));
        let tgt = m.truncate_target(idx as u64);
        assert!(ok == tgt.is_some(), "truncate accepted/rejected differently from the reference log");
        if let Some(after) = tgt {
            m.do_truncate(after);
            assert_matches(&rl, &m);
            let (from, to) = any_range();
            assert_read(&rl, &m, from, to);
            kani::cover!(m.n == 2, "truncate keeps two of three entries");
        }
        core::mem::forget(rl);
    }
}

// @harness name=c01_purge_n3 prop=C01 tier=thorough timeout=3000
env_proof! {
    unwind = 6, rot = ghost, crc = off,
    fn c01_purge_n3() {
        let (mut rl, mut m) = mk3();
        let upto: Id = kani::any();
        kani::assume(upto.1 < 250);
        kani::assume(m.purge_legal(upto));
        let ok = is_ok(rl.purge(upto));
        assert!(ok, "a legal purge is accepted");
        let before = m.n;
        m.do_purge(upto);
        assert_matches(&rl, &m);
        let (from, to) = any_range();
        assert_read(&rl, &m, from, to);
        kani::cover!(before == 3 && m.n == 1, "purge removes two of three entries");
        core::mem::forget(rl);
    }
}
