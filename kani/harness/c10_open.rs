// @anchor src/chunk/mod.rs
//! C10 / C09 (assembly level) — the real `Chunk::open` on ghost chunk files:
//! open_chunk_file, metadata, load_records_iter, RecordIterator, the record
//! codec, handle_record_error, verify_trailing_zeros, set_len + sync_all.
//!
//! Images are laid down by `kani_support::image::Img`: record shapes and the
//! file length are constants, every id / payload byte is symbolic. Each
//! harness enumerates its cut positions / tail lengths in a concrete loop, one
//! real `Chunk::open` per position.
use super::*;
use crate::kani_support::common::replay_config;
use crate::kani_support::ghost_fs as gfs;
use crate::kani_support::image::Img;
use crate::kani_support::ktypes::*;
use crate::kani_support::replay_proof;

type Id = (u8, u8);

struct Sym {
    c: Id,
    a: Id,
    b: u8,
    v: Id,
}

fn sym() -> Sym {
    Sym { c: kani::any(), a: kani::any(), b: kani::any(), v: kani::any() }
}

/// [State(empty) | Commit c | Append a (1 byte) | <last>]; returns the record ends
fn image(s: &Sym, last: u8) -> [usize; 4] {
    unsafe { gfs::FORCE_SLOT = Some(0) };
    let mut im = Img::new(0, 0);
    let e0 = im.state(None, None, None, None, None);
    let e1 = im.commit(s.c);
    let e2 = im.append(s.a, PR::new(1, s.b));
    let e3 = match last {
        0 => im.vote(s.v),
        1 => im.append(s.v, PR::new(2, s.b)),
        2 => im.commit(s.v),
        3 => im.truncate_after(None),
        4 => im.purge(s.v),
        5 => im.state(Some(s.v), Some(s.a), None, None, Some(s.b)),
        _ => im.truncate_after(Some(s.v)),
    };
    im.commit_len();
    [e0, e1, e2, e3]
}

fn reset_counters() {
    let f = &mut gfs::fs().files[0];
    f.n_set_len = 0;
    f.n_sync_ok = 0;
    f.n_write = 0;
}

/// the first three records came back exactly as laid down
fn check_prefix(s: &Sym, c: &Chunk<RTypes>, recs: &Vec<WALRecord<RTypes>>, ends: &[usize; 4], n: usize) {
    assert!(recs.len() == n, "number of recovered records is not the number of complete records");
    assert!(c.global_offsets.len() == n + 1);
    assert!(c.global_offsets[0] == 0);
    let mut i = 0;
    while i < 4 {
        if i < n {
            assert!(c.global_offsets[i + 1] == ends[i] as u64, "record boundary differs from where the record was written");
        }
        i += 1;
    }
    if n >= 1 {
        match &recs[0] {
            WALRecord::State(st) => assert!(st.vote.is_none() && st.last.is_none() && st.committed.is_none() && st.purged.is_none() && st.user_data.is_none(), "head state altered"),
            _ => assert!(false, "record 0 is not the head state"),
        }
    }
    if n >= 2 {
        match &recs[1] {
            WALRecord::Commit(id) => assert!(*id == s.c, "commit id altered"),
            _ => assert!(false, "record 1 is not the commit"),
        }
    }
    if n >= 3 {
        match &recs[2] {
            WALRecord::Append(id, p) => assert!(*id == s.a && p.n == 1 && p.b == s.b, "append altered"),
            _ => assert!(false, "record 2 is not the append"),
        }
    }
}

/// cut the file at every byte position inside the last record: exactly the
/// three complete records are recovered and the file is cut back to their end
/// cut positions `ends[2] + from .. min(ends[2] + to, ends[3])`
fn cut_range(last: u8, from: usize, to: usize) {
    let s = sym();
    let ends = image(&s, last);
    let mut cut = ends[2] + from;
    while cut < ends[3] && cut < ends[2] + to {
        gfs::fs().files[0].len = cut as u64;
        reset_counters();
        let r = Chunk::<RTypes>::open(replay_config(None), ChunkId(0));
        match r {
            Ok((c, recs)) => {
                check_prefix(&s, &c, &recs, &ends, 3);
                assert!(c.truncated == Some(cut as u64), "truncation not recorded");
                let f = &gfs::fs().files[0];
                assert!(f.len == ends[2] as u64, "file not cut back to the end of the last complete record");
                assert!(f.n_set_len == 1 && f.n_sync_ok == 1 && f.synced_len == f.len, "cut-back must be made durable");
                kani::cover!(true, "torn record cut away");
                core::mem::forget(c);
                core::mem::forget(recs);
            }
            Err(e) => {
                core::mem::forget(e);
                assert!(false, "a torn tail made open fail although truncation is enabled");
            }
        }
        cut += 1;
    }
}

// every cut position of every record kind, four positions per harness
// (symbolic execution time grows faster than linearly with the number of
// `Chunk::open` calls in one harness)
// @harness name=c10_cut_vote_01 prop=C10 tier=quick timeout=900 fs=512
replay_proof! { unwind = 10, crc = off, fn c10_cut_vote_01() { cut_range(0, 1, 5); } }
// @harness name=c10_cut_vote_05 prop=C10 tier=quick timeout=900 fs=512
replay_proof! { unwind = 10, crc = off, fn c10_cut_vote_05() { cut_range(0, 5, 9); } }
// @harness name=c10_cut_vote_09 prop=C10 tier=quick timeout=900 fs=512
replay_proof! { unwind = 10, crc = off, fn c10_cut_vote_09() { cut_range(0, 9, 13); } }
// @harness name=c10_cut_vote_13 prop=C10 tier=quick timeout=900 fs=512
replay_proof! { unwind = 10, crc = off, fn c10_cut_vote_13() { cut_range(0, 13, 14); } }
// @harness name=c10_cut_append_01 prop=C10 tier=thorough timeout=900 fs=512
replay_proof! { unwind = 10, crc = off, fn c10_cut_append_01() { cut_range(1, 1, 5); } }
// @harness name=c10_cut_append_05 prop=C10 tier=quick timeout=900 fs=512
replay_proof! { unwind = 10, crc = off, fn c10_cut_append_05() { cut_range(1, 5, 9); } }
// @harness name=c10_cut_append_09 prop=C10 tier=thorough timeout=900 fs=512
replay_proof! { unwind = 10, crc = off, fn c10_cut_append_09() { cut_range(1, 9, 13); } }
// @harness name=c10_cut_append_13 prop=C10 tier=thorough timeout=900 fs=512
replay_proof! { unwind = 10, crc = off, fn c10_cut_append_13() { cut_range(1, 13, 17); } }
// @harness name=c10_cut_truncnone_01 prop=C10 tier=thorough timeout=900 fs=512
replay_proof! { unwind = 10, crc = off, fn c10_cut_truncnone_01() { cut_range(3, 1, 5); } }
// @harness name=c10_cut_truncnone_05 prop=C10 tier=thorough timeout=900 fs=512
replay_proof! { unwind = 10, crc = off, fn c10_cut_truncnone_05() { cut_range(3, 5, 9); } }
// @harness name=c10_cut_truncnone_09 prop=C10 tier=thorough timeout=900 fs=512
replay_proof! { unwind = 10, crc = off, fn c10_cut_truncnone_09() { cut_range(3, 9, 13); } }
// @harness name=c10_cut_purge_01 prop=C10 tier=thorough timeout=900 fs=512
replay_proof! { unwind = 10, crc = off, fn c10_cut_purge_01() { cut_range(4, 1, 5); } }
// @harness name=c10_cut_purge_05 prop=C10 tier=thorough timeout=900 fs=512
replay_proof! { unwind = 10, crc = off, fn c10_cut_purge_05() { cut_range(4, 5, 9); } }
// @harness name=c10_cut_purge_09 prop=C10 tier=thorough timeout=900 fs=512
replay_proof! { unwind = 10, crc = off, fn c10_cut_purge_09() { cut_range(4, 9, 13); } }
// @harness name=c10_cut_purge_13 prop=C10 tier=thorough timeout=900 fs=512
replay_proof! { unwind = 10, crc = off, fn c10_cut_purge_13() { cut_range(4, 13, 14); } }
// @harness name=c10_cut_state_01 prop=C10 tier=quick timeout=900 fs=512
replay_proof! { unwind = 10, crc = off, fn c10_cut_state_01() { cut_range(5, 1, 5); } }
// @harness name=c10_cut_state_05 prop=C10 tier=thorough timeout=900 fs=512
replay_proof! { unwind = 10, crc = off, fn c10_cut_state_05() { cut_range(5, 5, 9); } }
// @harness name=c10_cut_state_09 prop=C10 tier=thorough timeout=900 fs=512
replay_proof! { unwind = 10, crc = off, fn c10_cut_state_09() { cut_range(5, 9, 13); } }
// @harness name=c10_cut_state_13 prop=C10 tier=thorough timeout=900 fs=512
replay_proof! { unwind = 10, crc = off, fn c10_cut_state_13() { cut_range(5, 13, 17); } }
// @harness name=c10_cut_state_17 prop=C10 tier=thorough timeout=900 fs=512
replay_proof! { unwind = 10, crc = off, fn c10_cut_state_17() { cut_range(5, 17, 21); } }
// @harness name=c10_cut_state_21 prop=C10 tier=quick timeout=900 fs=512
replay_proof! { unwind = 10, crc = off, fn c10_cut_state_21() { cut_range(5, 21, 23); } }
// @harness name=c10_cut_truncsome_01 prop=C10 tier=thorough timeout=900 fs=512
replay_proof! { unwind = 10, crc = off, fn c10_cut_truncsome_01() { cut_range(6, 1, 5); } }
// @harness name=c10_cut_truncsome_05 prop=C10 tier=thorough timeout=900 fs=512
replay_proof! { unwind = 10, crc = off, fn c10_cut_truncsome_05() { cut_range(6, 5, 9); } }
// @harness name=c10_cut_truncsome_09 prop=C10 tier=thorough timeout=900 fs=512
replay_proof! { unwind = 10, crc = off, fn c10_cut_truncsome_09() { cut_range(6, 9, 13); } }
// @harness name=c10_cut_truncsome_13 prop=C10 tier=thorough timeout=900 fs=512
replay_proof! { unwind = 10, crc = off, fn c10_cut_truncsome_13() { cut_range(6, 13, 15); } }

/// complete image: everything recovered, nothing touched
// @harness name=c10_open_complete prop=C10 tier=quick timeout=900 fs=512
replay_proof! {
    unwind = 10, crc = off,
    fn c10_open_complete() {
        let s = sym();
        let ends = image(&s, 2);
        let r = Chunk::<RTypes>::open(replay_config(None), ChunkId(0));
        match r {
            Ok((c, recs)) => {
                check_prefix(&s, &c, &recs, &ends, 4);
                assert!(c.global_offsets[4] == ends[3] as u64);
                match &recs[3] {
                    WALRecord::Commit(id) => assert!(*id == s.v),
                    _ => assert!(false, "record 3 is not the commit"),
                }
                assert!(c.truncated.is_none(), "complete chunk reported as truncated");
                let f = &gfs::fs().files[0];
                assert!(f.n_set_len == 0 && f.n_write == 0 && f.len == ends[3] as u64, "complete chunk file modified by open");
                kani::cover!(true, "complete chunk opened");
                core::mem::forget(c);
                core::mem::forget(recs);
            }
            Err(e) => {
                core::mem::forget(e);
                assert!(false, "open of a complete chunk failed");
            }
        }
    }
}

/// zero-filled tail of z bytes after two complete records. `concrete`: the
/// record values are constants (with the real CRC every checksum comparison
/// over symbolic bytes is a symbolic branch; the subject here is the tail).
fn zero_tail(z: usize, truncate: Option<bool>, concrete: bool) {
    unsafe { gfs::FORCE_SLOT = Some(0) };
    let c: Id = if concrete { (7, 9) } else { kani::any() };
    let mut im = Img::new(0, 0);
    let e0 = im.state(None, None, None, None, None);
    let e1 = im.commit(c);
    // the tail: z zero bytes
    let mut i = 0;
    while i < 24 {
        if i < z {
            im.put(0);
        }
        i += 1;
    }
    im.commit_len();
    reset_counters();
    let on = truncate.unwrap_or(true);
    let r = Chunk::<RTypes>::open(replay_config(truncate), ChunkId(0));
    match r {
        Ok((ch, recs)) => {
            assert!(on, "zero tail accepted although truncation is disabled");
            assert!(recs.len() == 2 && ch.global_offsets.len() == 3 && ch.global_offsets[1] == e0 as u64 && ch.global_offsets[2] == e1 as u64, "not exactly the complete records recovered");
            match &recs[1] {
                WALRecord::Commit(id) => assert!(*id == c, "commit id altered"),
                _ => assert!(false, "record 1 is not the commit"),
            }
            let f = &gfs::fs().files[0];
            assert!(f.len == e1 as u64 && f.n_set_len == 1 && f.n_sync_ok == 1, "zero tail not cut back durably");
            assert!(ch.truncated == Some((e1 + z) as u64));
            kani::cover!(true, "zero tail truncated");
            core::mem::forget(ch);
            core::mem::forget(recs);
        }
        Err(e) => {
            core::mem::forget(e);
            assert!(!on, "a zero-filled tail made open fail although truncation is enabled");
            let f = &gfs::fs().files[0];
            assert!(f.n_set_len == 0 && f.n_write == 0 && f.len == (e1 + z) as u64, "refused open modified the file");
            kani::cover!(true, "zero tail refused, file untouched");
        }
    }
}

// tail lengths: shorter than a type word, exactly one, shorter than the
// shortest record (the decoder runs out of bytes: checksum values play no
// part, crc = off, symbolic record values) - and longer than a record: 20
// zero bytes decode as SaveVote((0,0)) with checksum field 0, which only the
// real CRC rejects (crc32 of six zero bytes is not 0): crc = real, concrete
// record values
// @harness name=c10_zero_tail_3 prop=C10 tier=quick timeout=900 fs=512 allow_unsat=refused
replay_proof! { unwind = 26, crc = off, fn c10_zero_tail_3() { zero_tail(3, None, false); } }
// @harness name=c10_zero_tail_4 prop=C10 tier=thorough timeout=900 fs=512 allow_unsat=refused
replay_proof! { unwind = 26, crc = off, fn c10_zero_tail_4() { zero_tail(4, None, false); } }
// @harness name=c10_zero_tail_9 prop=C10 tier=quick timeout=900 fs=512 allow_unsat=refused
replay_proof! { unwind = 26, crc = off, fn c10_zero_tail_9() { zero_tail(9, None, false); } }
// @harness name=c10_zero_tail_9_off prop=C10 tier=thorough timeout=900 fs=512 allow_unsat=truncated
replay_proof! { unwind = 26, crc = off, fn c10_zero_tail_9_off() { zero_tail(9, Some(false), false); } }
// @harness name=c10_zero_tail_20 prop=C10 tier=quick timeout=1200 fs=128 allow_unsat=refused
replay_proof! { unwind = 26, crc = real, fn c10_zero_tail_20() { zero_tail(20, Some(true), true); } }
// @harness name=c10_zero_tail_20_off prop=C10 tier=quick timeout=1200 fs=128 allow_unsat=truncated
replay_proof! { unwind = 26, crc = real, fn c10_zero_tail_20_off() { zero_tail(20, Some(false), true); } }

/// truncation disabled: any cut makes open fail and leaves the file untouched
// @harness name=c10_cut_off prop=C10 tier=quick timeout=900 fs=512
replay_proof! {
    unwind = 10, crc = off,
    fn c10_cut_off() {
        let s = sym();
        let ends = image(&s, 2);
        let mut k = 0;
        while k < 3 {
            // first byte, middle, one byte short
            let cut = if k == 0 { ends[2] + 1 } else if k == 1 { ends[2] + 5 } else { ends[3] - 1 };
            gfs::fs().files[0].len = cut as u64;
            reset_counters();
            let r = Chunk::<RTypes>::open(replay_config(Some(false)), ChunkId(0));
            match r {
                Ok(x) => {
                    core::mem::forget(x);
                    assert!(false, "torn tail accepted although truncation is disabled");
                }
                Err(e) => {
                    core::mem::forget(e);
                    let f = &gfs::fs().files[0];
                    assert!(f.n_set_len == 0 && f.n_write == 0 && f.len == cut as u64, "refused open modified the file");
                    kani::cover!(k == 2, "refused one byte short");
                }
            }
            k += 1;
        }
    }
}

// ---------------------------------------------------------------- C09: altered bytes
//
// One byte of a completely written record is altered (xor with an arbitrary
// non-zero mask), checksums are the real CRC-32. `Chunk::open` must fail and
// must not touch the file.

/// [State(empty) | R2 | Commit v] with R2 = Commit c (mid = 0) or Append a
/// (1 byte, mid = 1). Short on purpose: with the real CRC every checksum
/// comparison over symbolic bytes is a symbolic branch, and symbolic execution
/// walks the error path (handle_record_error, verify_trailing_zeros over the
/// rest of the file) after every record.
fn image_small(s: &Sym, mid: u8) -> [usize; 3] {
    unsafe { gfs::FORCE_SLOT = Some(0) };
    let mut im = Img::new(0, 0);
    let e0 = im.state(None, None, None, None, None);
    let e1 = if mid == 1 { im.append(s.a, PR::new(1, s.b)) } else { im.commit(s.c) };
    // mid == 2: the altered record is the last one of a two-record chunk
    let e2 = if mid == 2 { e1 } else { im.commit(s.v) };
    im.commit_len();
    [e0, e1, e2]
}

/// flip positions `rec_start + from .. rec_start + to` of record `rec` (2 = the
/// record in the middle, 3 = the last record)
fn flip_range(mid: u8, rec: usize, from: usize, to: usize) {
    let s = sym();
    let ends = image_small(&s, mid);
    let start = ends[rec - 2];
    let mut k = from;
    while k < to {
        let pos = start + k;
        let mask: u8 = kani::any();
        kani::assume(mask != 0);
        let old = gfs::bytes(0)[pos];
        gfs::bytes(0)[pos] = old ^ mask;
        reset_counters();
        let r = Chunk::<RTypes>::open(replay_config(None), ChunkId(0));
        match r {
            Ok(x) => {
                core::mem::forget(x);
                assert!(false, "a chunk with an altered byte inside a complete record was opened without an error");
            }
            Err(e) => {
                core::mem::forget(e);
                let f = &gfs::fs().files[0];
                assert!(f.n_set_len == 0 && f.n_write == 0 && f.len == ends[2] as u64, "refused open modified the file");
                kani::cover!(true, "alteration reported");
            }
        }
        gfs::bytes(0)[pos] = old;
        k += 1;
    }
}

// the last record of a two-record chunk (Commit: 4 type + 2 id + 8 checksum),
// one altered position per harness (two positions in one harness ran out of
// memory: every `Chunk::open` with the real CRC carries its symbolic checksum
// branches along). Positions 4..5: the id, 6..13: the checksum field. The
// type word (positions 0..3) is not covered here: a symbolic type makes
// symbolic execution re-read the record as every kind (out of memory / 25 min
// timeout); unknown types are rejected at decoder level (c09_eof_unknown*,
// c12_dec_badtag_k).
// @harness name=c09_flip_p04 prop=C09 tier=quick timeout=1500 fs=128
replay_proof! { unwind = 16, crc = real, fn c09_flip_p04() { flip_range(2, 2, 4, 5); } }
// @harness name=c09_flip_p05 prop=C09 tier=thorough timeout=1500 fs=128
replay_proof! { unwind = 16, crc = real, fn c09_flip_p05() { flip_range(2, 2, 5, 6); } }
// @harness name=c09_flip_p06 prop=C09 tier=thorough timeout=1500 fs=128
replay_proof! { unwind = 16, crc = real, fn c09_flip_p06() { flip_range(2, 2, 6, 7); } }
// @harness name=c09_flip_p07 prop=C09 tier=thorough timeout=1500 fs=128
replay_proof! { unwind = 16, crc = real, fn c09_flip_p07() { flip_range(2, 2, 7, 8); } }
// @harness name=c09_flip_p08 prop=C09 tier=thorough timeout=1500 fs=128
replay_proof! { unwind = 16, crc = real, fn c09_flip_p08() { flip_range(2, 2, 8, 9); } }
// @harness name=c09_flip_p09 prop=C09 tier=thorough timeout=1500 fs=128
replay_proof! { unwind = 16, crc = real, fn c09_flip_p09() { flip_range(2, 2, 9, 10); } }
// @harness name=c09_flip_p10 prop=C09 tier=thorough timeout=1500 fs=128
replay_proof! { unwind = 16, crc = real, fn c09_flip_p10() { flip_range(2, 2, 10, 11); } }
// @harness name=c09_flip_p11 prop=C09 tier=thorough timeout=1500 fs=128
replay_proof! { unwind = 16, crc = real, fn c09_flip_p11() { flip_range(2, 2, 11, 12); } }
// @harness name=c09_flip_p12 prop=C09 tier=thorough timeout=1500 fs=128
replay_proof! { unwind = 16, crc = real, fn c09_flip_p12() { flip_range(2, 2, 12, 13); } }
// @harness name=c09_flip_p13 prop=C09 tier=quick timeout=1500 fs=128
replay_proof! { unwind = 16, crc = real, fn c09_flip_p13() { flip_range(2, 2, 13, 14); } }

// KNOWN FINDING KF-C09-eof-absorbed: an alteration that makes the decoder
// want more bytes than the file holds (here: the Option tag of a final
// TruncateAfter(None) becomes 1, so an id is expected) ends in UnexpectedEof,
// which recovery takes for a torn tail: the record is silently cut away and
// open succeeds.
// (checksum values play no part: the decoder runs out of bytes before it reaches the checksum)
// @harness name=c09_known_eof_absorbed prop=C09 tier=quick timeout=1500 fs=512 kind=known
replay_proof! {
    unwind = 16, crc = off,
    fn c09_known_eof_absorbed() {
        let s = sym();
        unsafe { gfs::FORCE_SLOT = Some(0) };
        let mut im = Img::new(0, 0);
        im.state(None, None, None, None, None);
        let e1 = im.commit(s.c);
        im.truncate_after(None);
        im.commit_len();
        let pos = e1 + 4;
        gfs::bytes(0)[pos] = 1;
        reset_counters();
        let r = Chunk::<RTypes>::open(replay_config(None), ChunkId(0));
        kani::cover!(r.is_ok(), "opened");
        assert!(r.is_err(), "a chunk with an altered byte inside a complete record was opened without an error");
        core::mem::forget(r);
    }
}

// the same recovery for a chunk that does not start at journal offset 0: the
// reported record offsets are global, the cut-back length is local to the file
// @harness name=c10_cut_vote_at_offset prop=C10 tier=quick timeout=900 fs=512
replay_proof! {
    unwind = 10, crc = off,
    fn c10_cut_vote_at_offset() {
        const BASE: u64 = 700;
        let s = sym();
        unsafe { gfs::FORCE_SLOT = Some(0) };
        let mut im = Img::new(0, BASE);
        let e0 = im.state(None, None, None, None, None);
        let e1 = im.commit(s.c);
        let e2 = im.vote(s.v);
        im.commit_len();
        let mut k = 0;
        while k < 2 {
            let cut = if k == 0 { e1 + 3 } else { e2 - 1 };
            gfs::fs().files[0].len = cut as u64;
            reset_counters();
            let r = Chunk::<RTypes>::open(replay_config(None), ChunkId(BASE));
            match r {
                Ok((c, recs)) => {
                    assert!(recs.len() == 2 && c.global_offsets.len() == 3, "not exactly the complete records recovered");
                    assert!(c.global_offsets[0] == BASE && c.global_offsets[1] == BASE + e0 as u64 && c.global_offsets[2] == BASE + e1 as u64, "record offsets are not global offsets");
                    let f = &gfs::fs().files[0];
                    assert!(f.len == e1 as u64 && f.n_set_len == 1, "file not cut back to the file-local end of the last complete record");
                    assert!(c.truncated == Some(cut as u64));
                    kani::cover!(true, "torn record cut away at a non-zero chunk offset");
                    core::mem::forget(c);
                    core::mem::forget(recs);
                }
                Err(e) => {
                    core::mem::forget(e);
                    assert!(false, "a torn tail made open fail although truncation is enabled");
                }
            }
            k += 1;
        }
    }
}
