// @anchor src/chunk/mod.rs
//! C10 (assembly level) — the real `Chunk::open` on a ghost chunk file.
use super::*;
use crate::kani_support::env_proof;
use crate::kani_support::ghost_fs as gfs;
use crate::kani_support::ktypes::*;
use crate::kani_support::stubs;
use crate::raft_log::state_machine::raft_log_state::RaftLogState;
use codeq::Encode;
use crate::kani_support::image::Img;

macro_rules! open_proof {
    (unwind = $u:expr, fn $name:ident() $body:block) => {
        env_proof! {
            unwind = $u, crc = off,
            #[kani::stub(crate::config::Config::read_buffer_size, stubs::cfg_read_buffer_size)]
            #[kani::stub(crate::config::Config::truncate_incomplete_record, stubs::cfg_truncate_incomplete_record)]
            fn $name() $body
        }
    };
}

fn cfg(truncate: Option<bool>) -> Arc<Config> {
    unsafe {
        stubs::CFG_READ_BUF = 0;
        stubs::CFG_TRUNCATE = truncate.unwrap_or(true);
    }
    Arc::new(Config {
        dir: String::new(),
        log_cache_max_items: None,
        log_cache_capacity: None,
        // 0: BufReader hands every read straight to the file (std bypasses an
        // empty buffer for reads >= capacity)
        read_buffer_size: Some(0),
        chunk_max_records: None,
        chunk_max_size: None,
        truncate_incomplete_record: truncate,
    })
}

fn image3() -> (usize, usize, usize) {
    unsafe { gfs::FORCE_SLOT = Some(0) };
    let mut im = Img::new(0, 0);
    let e0 = im.state(None, None, None, None, None);
    let e1 = im.commit(kani::any());
    let e2 = im.append(kani::any(), P { n: 1, b: kani::any() });
    im.commit_len();
    (e0, e1, e2)
}

// @harness name=c10x_open_full prop=C10 tier=quick timeout=900
open_proof! {
    unwind = 10,
    fn c10x_open_full() {
        let (e0, e1, e2) = image3();
        gfs::fs().files[0].len = e2 as u64;
        let r = Chunk::<OTypes>::open(cfg(None), ChunkId(0));
        match r {
            Ok((c, recs)) => {
                assert!(recs.len() == 3, "all three complete records recovered");
                assert!(c.global_offsets.len() == 4);
                assert!(c.global_offsets[1] == e0 as u64 && c.global_offsets[2] == e1 as u64 && c.global_offsets[3] == e2 as u64);
                assert!(c.truncated.is_none());
                assert!(gfs::fs().files[0].n_set_len == 0);
                kani::cover!(true, "opened");
                core::mem::forget(c);
                core::mem::forget(recs);
            }
            Err(e) => {
                core::mem::forget(e);
                assert!(false, "open of a complete chunk failed");
            }
        }
    }
}

