// @anchor src/raft_log/raft_log.rs
//! In-place support (child of raft_log.rs).
use super::*;
use crate::kani_support::ghost_fs as gfs;

/// Stub for `RaftLog::load_chunk_ids`: the ghost directory listing, sorted.
pub(crate) fn stub_load_chunk_ids<T: Types>(_config: &Config) -> Result<Vec<ChunkId>, io::Error> {
    let g = gfs::fs();
    let mut ids: Vec<ChunkId> = Vec::with_capacity(gfs::NFILES);
    // selection sort over at most NFILES entries, fixed trip counts
    let mut taken = [false; gfs::NFILES];
    let mut k = 0;
    while k < gfs::NFILES {
        let mut best: Option<usize> = None;
        let mut i = 0;
        while i < gfs::NFILES {
            if g.files[i].used && g.files[i].exists && !taken[i] {
                best = match best {
                    Some(b) if g.files[b].chunk_id <= g.files[i].chunk_id => Some(b),
                    _ => Some(i),
                };
            }
            i += 1;
        }
        if let Some(b) = best {
            taken[b] = true;
            ids.push(ChunkId(g.files[b].chunk_id));
        }
        k += 1;
    }
    Ok(ids)
}

pub(crate) fn removed_chunks_len<T: Types>(rl: &RaftLog<T>) -> usize {
    rl.removed_chunks.len()
}

/// ghost slot named by the i-th path scheduled for removal
pub(crate) fn removed_chunk_slot<T: Types>(rl: &RaftLog<T>, i: usize) -> usize {
    gfs::slot_of_path(rl.removed_chunks[i].as_bytes())
}
