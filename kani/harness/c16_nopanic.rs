//! C16 — no argument makes a public operation panic.
//!
//! One public operation with fully symbolic arguments (u64 ids: `WTypes`) on
//! a store whose in-memory state is an arbitrary *reachable* state with up to
//! two live entries: purged = None | Some(p); live entries at consecutive
//! indexes right after `p` (any start index when nothing was purged), ids
//! increasing; last = newest entry or `p`; every live payload resident. The
//! store value itself comes from the real `RaftLog::open` on an empty ghost
//! directory. The oracle is Kani's panic / arithmetic-overflow / bounds /
//! unwrap checks (kani-compiler builds with overflow checks on).
use crate::ChunkId;
use crate::RaftLog;
use crate::api::raft_log_writer::RaftLogWriter;
use crate::kani_support::common::*;
use crate::kani_support::env_proof;
use crate::kani_support::ktypes::*;
use crate::kani_support::slotmap::BTreeMap;
use crate::raft_log::log_data::LogData;
use crate::types::Segment;

type Id = (u64, u64);

struct St {
    purged: Option<Id>,
    n: usize,
    e0: Id,
    e1: Id,
}

fn any_reachable_state() -> St {
    let purged: Option<Id> = if kani::any() { Some((kani::any(), kani::any())) } else { None };
    let n: usize = kani::any();
    kani::assume(n <= 2);
    let e0: Id = (kani::any(), kani::any());
    let e1: Id = (kani::any(), kani::any());
    if let Some(p) = purged {
        if n >= 1 {
            // entries continue right after the purged id
            kani::assume(p.1 < u64::MAX && e0.1 == p.1 + 1 && e0 > p);
        }
    }
    if n >= 2 {
        kani::assume(e0.1 < u64::MAX && e1.1 == e0.1 + 1 && e1 > e0);
    }
    St { purged, n, e0, e1 }
}

fn inject(rl: &mut RaftLog<WTypes>, st: &St) {
    let seg = Segment::new(0, 0);
    let ld = |id: Id| LogData::<WTypes>::new(id, ChunkId(0), seg);
    let far: Id = (u64::MAX, u64::MAX);
    rl.state_machine.log = BTreeMap::from_sorted3(
        (st.e0.1, ld(st.e0)),
        (st.e1.1, ld(st.e1)),
        (u64::MAX, ld(far)),
        st.n,
    );
    {
        let mut c = rl.state_machine.payload_cache.write().unwrap();
        let p0: P = kani::any();
        let p1: P = kani::any();
        if st.n >= 1 {
            c.insert(st.e0, p0);
        }
        if st.n >= 2 {
            c.insert(st.e1, p1);
        }
    }
    let last = if st.n >= 2 {
        Some(st.e1)
    } else if st.n == 1 {
        Some(st.e0)
    } else {
        st.purged
    };
    let s = rl.log_state_mut();
    s.purged = st.purged;
    s.last = last;
    s.committed = if kani::any() { Some((kani::any(), kani::any())) } else { None };
    s.vote = if kani::any() { Some((kani::any(), kani::any())) } else { None };
}

fn mk() -> (RaftLog<WTypes>, St) {
    let cfg = mk_config(None, None, None, None);
    let mut rl: RaftLog<WTypes> = open_empty(cfg);
    let st = any_reachable_state();
    inject(&mut rl, &st);
    (rl, st)
}

/// known finding KF-C16-maxindex: `Types::next_log_index` computes
/// `index + 1` and overflows for ids whose index is u64::MAX.
fn touches_max_index(st: &St, arg: Option<u64>) -> bool {
    let p = matches!(st.purged, Some(p) if p.1 == u64::MAX);
    let l = (st.n == 1 && st.e0.1 == u64::MAX) || (st.n == 2 && st.e1.1 == u64::MAX);
    p || l || arg == Some(u64::MAX)
}

// @harness name=c16_truncate prop=C16 tier=quick timeout=1200
env_proof! {
    unwind = 6, rot = ghost, crc = off,
    fn c16_truncate() {
        let (mut rl, st) = mk();
        let idx: u64 = kani::any();
        kani::assume(!touches_max_index(&st, None));
        let r = rl.truncate(idx);
        kani::cover!(r.is_ok(), "truncate accepted");
        kani::cover!(r.is_err(), "truncate rejected");
        kani::cover!(idx == 0 && st.purged.is_some(), "truncate(0) after a purge");
        let _ = is_ok(r);
        core::mem::forget(rl);
    }
}

// @harness name=c16_read prop=C16 tier=quick timeout=1200
env_proof! {
    unwind = 6, rot = ghost, crc = off,
    fn c16_read() {
        let (rl, st) = mk();
        let from: u64 = kani::any();
        let to: u64 = kani::any();
        let mut cnt = 0;
        {
            let mut it = rl.read(from, to);
            let mut k = 0;
            while k < 3 {
                if let Some(r) = it.next() {
                    assert!(is_ok(r), "resident payload read fails");
                    cnt += 1;
                }
                k += 1;
            }
            core::mem::forget(it);
        }
        kani::cover!(from > to, "read with from > to");
        kani::cover!(cnt == 2, "read returns two entries");
        kani::cover!(to == u64::MAX, "read up to u64::MAX");
        let _ = st;
        core::mem::forget(rl);
    }
}

// @harness name=c16_purge prop=C16 tier=quick timeout=1200
env_proof! {
    unwind = 6, rot = ghost, crc = off,
    fn c16_purge() {
        let (mut rl, st) = mk();
        let id: Id = (kani::any(), kani::any());
        kani::assume(!touches_max_index(&st, Some(id.1)));
        let r = rl.purge(id);
        kani::cover!(r.is_ok(), "purge returns");
        let _ = is_ok(r);
        core::mem::forget(rl);
    }
}

// @harness name=c16_append prop=C16 tier=quick timeout=1200
env_proof! {
    unwind = 6, rot = ghost, crc = off,
    fn c16_append() {
        let (mut rl, st) = mk();
        let id: Id = (kani::any(), kani::any());
        kani::assume(!touches_max_index(&st, None));
        let r = rl.append([(id, kani::any())]);
        kani::cover!(r.is_ok(), "append accepted");
        kani::cover!(r.is_err(), "append rejected");
        kani::cover!(id.1 == u64::MAX, "append at index u64::MAX");
        let _ = is_ok(r);
        core::mem::forget(rl);
    }
}

// @harness name=c16_commit_vote prop=C16 tier=quick timeout=1200
env_proof! {
    unwind = 6, rot = ghost, crc = off,
    fn c16_commit_vote() {
        let (mut rl, st) = mk();
        let id: Id = (kani::any(), kani::any());
        let r = rl.commit(id);
        kani::cover!(r.is_ok(), "commit accepted");
        kani::cover!(r.is_err(), "commit rejected");
        let _ = is_ok(r);
        let v: Id = (kani::any(), kani::any());
        let r = rl.save_vote(v);
        kani::cover!(r.is_ok(), "vote accepted");
        let _ = is_ok(r);
        let _ = st;
        core::mem::forget(rl);
    }
}

// observers and flush never panic either
// @harness name=c16_observers_flush prop=C16 tier=quick timeout=1500
env_proof! {
    unwind = 6, rot = ghost, crc = off,
    fn c16_observers_flush() {
        let (mut rl, st) = mk();
        let s1 = rl.stat();
        let sz = rl.on_disk_size();
        assert!(sz == s1.open_chunk.size);
        core::mem::forget(s1);
        rl.drain_cache_evictable();
        let r = rl.flush(None);
        kani::cover!(r.is_ok(), "flush queued");
        let _ = is_ok(r);
        let _ = st;
        core::mem::forget(rl);
    }
}

// ---- twin harnesses restricted to the listed known finding ----

// @harness name=c16_known_maxindex_purge prop=C16 tier=quick timeout=1200 kind=known
env_proof! {
    unwind = 6, rot = ghost, crc = off,
    fn c16_known_maxindex_purge() {
        let (mut rl, st) = mk();
        let id: Id = (kani::any(), kani::any());
        kani::assume(touches_max_index(&st, Some(id.1)));
        let r = rl.purge(id);
        let _ = is_ok(r);
        core::mem::forget(rl);
    }
}

// @harness name=c16_known_maxindex_append prop=C16 tier=quick timeout=1200 kind=known
env_proof! {
    unwind = 6, rot = ghost, crc = off,
    fn c16_known_maxindex_append() {
        let (mut rl, st) = mk();
        let id: Id = (kani::any(), kani::any());
        kani::assume(touches_max_index(&st, None));
        let r = rl.append([(id, kani::any())]);
        let _ = is_ok(r);
        core::mem::forget(rl);
    }
}
