//! C16 — no argument makes a public operation panic.
use crate::api::raft_log_writer::RaftLogWriter;
use crate::kani_support::common::*;
use crate::kani_support::env_proof;
use crate::kani_support::ktypes::*;
use crate::RaftLog;

fn any_id() -> (u64, u64) {
    (kani::any(), kani::any())
}

// @harness name=c16_probe_truncate prop=C16 tier=quick timeout=900
env_proof! {
    unwind = 8, crc = off,
    fn c16_probe_truncate() {
        let cfg = mk_config(None, None, None, None);
        let mut rl: RaftLog<WTypes> = open_empty(cfg);
        let id1 = any_id();
        let r = rl.append([(id1, kani::any())]);
        kani::assume(is_ok(r));
        let idx: u64 = kani::any();
        let r = rl.truncate(idx);
        kani::cover!(r.is_ok(), "truncate accepted");
        kani::cover!(r.is_err(), "truncate rejected");
        let _ = is_ok(r);
        core::mem::forget(rl);
    }
}
