//! C08 — chunk files are deleted only when obsolete and durably purged,
//! oldest first. Within reach:
//!  (b) the caller side, real `RaftLog::purge` + `RaftLog::flush`: which
//!      closed chunks a purge schedules (exactly the oldest chunks whose last
//!      log id is at or below the purge point, oldest first), that nothing is
//!      handed to the worker by `purge` itself (also when the purge record
//!      fills the chunk and a rotation happens inside purge), and that `flush`
//!      queues the synced Write carrying the purge record *before* the
//!      RemoveChunks request;
//!  (c) the worker side, real `handle_non_flush_request(RemoveChunks)`: the
//!      listed files are unlinked in list order (oldest first).
//! Not encoded: `run_inner`'s decision to run the trailing RemoveChunks after
//! a *failed* sync of the batch (worker loop out of reach; see DESIGN.md and
//! known_findings.json: KF-C08-unlink-after-failed-sync, found by reading).
use std::sync::Arc;

use crate::ChunkId;
use crate::RaftLog;
use crate::api::raft_log_writer::RaftLogWriter;
use crate::chunk::Chunk;
use crate::chunk::closed_chunk::ClosedChunk;
use crate::kani_support::common::*;
use crate::kani_support::env_proof;
use crate::kani_support::ghost_chan as gc;
use crate::kani_support::ghost_fs as gfs;
use crate::kani_support::ktypes::*;
use crate::kani_support::model::*;
use crate::raft_log::raft_log::kani_h_a_raftlog as arl;
use crate::raft_log::state_machine::raft_log_state::RaftLogState;
use crate::raft_log::wal::kani_h_a_wal as awal;

fn closed_chunk(slot: usize, start: u64, end: u64, last: Option<Id>) -> ClosedChunk<RTypes> {
    let g = gfs::fs();
    g.files[slot].used = true;
    g.files[slot].exists = true;
    g.files[slot].chunk_id = start;
    g.files[slot].len = end - start;
    let f = Arc::new(gfs::mk_file(slot));
    core::mem::forget(f.clone());
    let mut offs: Vec<u64> = Vec::with_capacity(2);
    offs.push(start);
    offs.push(end);
    let chunk = Chunk::<RTypes> { f, global_offsets: offs, truncated: None, _p: Default::default() };
    let state = RaftLogState::<RTypes> { last, ..Default::default() };
    ClosedChunk::new(chunk, state)
}

/// store with two closed chunks (ghost slots 1 and 2, ids 100 and 200) whose
/// closing states have last = l1 <= l2, and nothing live above l2 in memory
fn mk(rotate: bool) -> (RaftLog<RTypes>, Option<Id>, Option<Id>) {
    let cfg = mk_config(None, None, None, None);
    let mut rl: RaftLog<RTypes> = open_empty(cfg);
    // with a rotation inside purge the state is encoded into the new chunk's
    // head record: keep the Option shapes concrete there (Some/Some), the
    // values symbolic; without rotation the shapes are symbolic too
    let l1: Option<Id> = if rotate { Some(kani::any()) } else { kani::any() };
    let l2: Option<Id> = if rotate { Some(kani::any()) } else { kani::any() };
    kani::assume(l1 <= l2);
    if let Some(x) = l2 {
        kani::assume(x.1 < 250);
    }
    // the open chunk lies after the closed ones: move it (and its ghost file)
    // from offset 0 to offset 300
    let mut k = 0;
    while k < 2 {
        if k < rl.wal.open.chunk.global_offsets.len() {
            rl.wal.open.chunk.global_offsets[k] += 300;
        }
        k += 1;
    }
    gfs::fs().files[0].chunk_id = 300;
    rl.wal.closed.insert(ChunkId(100), closed_chunk(1, 100, 200, l1));
    rl.wal.closed.insert(ChunkId(200), closed_chunk(2, 200, 300, l2));
    rl.log_state_mut().last = l2;
    unsafe { awal::ROTATE_NOW = rotate; }
    (rl, l1, l2)
}

fn purge_step(rotate: bool) {
    let (mut rl, l1, l2) = mk(rotate);
    let upto: Id = kani::any();
    kani::assume(upto.1 < 250);
    let sent0 = awal::queue_sent(&rl.wal);
    let r = rl.purge(upto);
    unsafe { awal::ROTATE_NOW = false; }
    assert!(is_ok(r), "purge refused");
    let n = arl::removed_chunks_len(&rl);
    // exactly the oldest chunks whose closing `last` is at or below the purge point
    let want1 = l1 <= Some(upto);
    let want2 = want1 && l2 <= Some(upto);
    // with a rotation inside purge the chunk that was open (it ends with the
    // purge record) is closed too; its closing state has last = max(l2, upto),
    // so it is obsolete exactly when chunk 200 is, and the purge point lives
    // on in the head snapshot of the new chunk
    let want3 = rotate && want2;
    assert!(n == (want1 as usize) + (want2 as usize) + (want3 as usize), "purge scheduled a wrong set of chunks");
    if n >= 3 {
        assert!(arl::removed_chunk_slot(&rl, 2) == 0, "chunks must be scheduled oldest first");
        assert!(rl.wal.closed.get(&ChunkId(300)).is_none());
    } else if rotate {
        assert!(rl.wal.closed.get(&ChunkId(300)).is_some(), "the chunk closed by the rotation left the closed set");
    }
    if n >= 1 {
        assert!(arl::removed_chunk_slot(&rl, 0) == 1, "oldest chunk must be scheduled first");
        assert!(rl.wal.closed.get(&ChunkId(100)).is_none());
    } else {
        assert!(rl.wal.closed.get(&ChunkId(100)).is_some(), "a chunk with live entries left the closed set");
    }
    if n >= 2 {
        assert!(arl::removed_chunk_slot(&rl, 1) == 2);
        assert!(rl.wal.closed.get(&ChunkId(200)).is_none());
    } else {
        assert!(rl.wal.closed.get(&ChunkId(200)).is_some(), "a chunk with live entries left the closed set");
    }
    // nothing is unlinked or handed to the worker by purge itself, except the
    // rotation hand-off (old tail Write + AppendFile) when the chunk filled up
    let sent1 = awal::queue_sent(&rl.wal);
    assert!(sent1 <= sent0 + 3, "purge queued more than a rotation hand-off");
    let mut k = 0;
    while k < 3 {
        if sent0 + k < sent1 {
            assert!(gc::tag_at(0, sent0 + k) != 1, "purge handed RemoveChunks to the worker before any flush");
        }
        k += 1;
    }
    assert!(gfs::fs().n_unlink == 0);
    // flush: the synced Write (it carries the purge record or follows it) is
    // queued before the RemoveChunks request
    let r = rl.flush(None);
    assert!(is_ok(r));
    let sent2 = awal::queue_sent(&rl.wal);
    if n > 0 {
        assert!(sent2 == sent1 + 2, "flush must queue Write then RemoveChunks");
        assert!(gc::tag_at(0, sent1) == 2, "flush did not queue the Write first");
        assert!(gc::tag_at(0, sent1 + 1) == 1, "flush did not queue RemoveChunks after the Write");
        assert!(arl::removed_chunks_len(&rl) == 0, "scheduled chunks not handed over by flush");
        kani::cover!(n >= 2, "several chunks removed by one purge");
        kani::cover!(n == 1, "one chunk removed");
    } else {
        assert!(sent2 == sent1 + 1);
        kani::cover!(true, "purge below every closed chunk's last id removes nothing");
    }
    core::mem::forget(rl);
}

// @harness name=c08_purge_flush prop=C08 tier=quick timeout=2400
env_proof! {
    unwind = 6, rot = ghost, crc = off,
    fn c08_purge_flush() { purge_step(false); }
}

// the purge record is the record that fills the chunk: rotation inside purge
// @harness name=c08_purge_rotating prop=C08 tier=quick timeout=3000
env_proof! {
    unwind = 6, rot = ghost, crc = off,
    fn c08_purge_rotating() { purge_step(true); }
}
