// @anchor src/raft_log/wal/wal_record.rs
//! C09 lemma L1 — the decoder reports `UnexpectedEof` only when it actually
//! ran out of input. Recovery treats UnexpectedEof at the tail as an
//! incomplete record and cuts it off; any other damage must surface as a
//! different error (and therefore as a refused open), otherwise corruption is
//! silently absorbed. Full-length frames with arbitrary content, tag fixed per
//! harness, plus unknown tags.
use codeq::Decode;

use crate::WALRecord;
use crate::kani_support::ktypes::*;
use crate::kani_support::stubs;

fn eof_only_at_end<const L: usize>(tag: u32) {
    let mut buf: [u8; L] = kani::any();
    let t = tag.to_be_bytes();
    buf[0] = t[0];
    buf[1] = t[1];
    buf[2] = t[2];
    buf[3] = t[3];
    let mut rd: &[u8] = &buf[..];
    match WALRecord::<KTypes>::decode(&mut rd) {
        Ok(r) => core::mem::forget(r),
        Err(e) => {
            if e.kind() == std::io::ErrorKind::UnexpectedEof {
                assert!(rd.is_empty(), "UnexpectedEof although input bytes remain: damage would be taken for a torn tail");
            }
            kani::cover!(e.kind() != std::io::ErrorKind::UnexpectedEof, "damage reported with another error kind");
            core::mem::forget(e);
        }
    }
}

macro_rules! eof_harness {
    ($name:ident, $l:expr, $tag:expr) => {
        #[kani::proof]
        #[kani::unwind(20)]
        #[kani::stub(crc32fast::Hasher::new, stubs::crc_new)]
        #[kani::stub(alloc::fmt::format, stubs::fmt_format)]
        #[kani::stub(core::fmt::write, stubs::fmt_write)]
        #[kani::stub(<core::io::CustomOwner as core::ops::Drop>::drop, stubs::custom_owner_drop)]
        #[kani::stub(<std::io::Error as core::fmt::Display>::fmt, stubs::io_error_display)]
        #[kani::stub(<std::io::Error as core::fmt::Debug>::fmt, stubs::io_error_display)]
        fn $name() {
            eof_only_at_end::<$l>($tag);
        }
    };
}

// @harness name=c09_eof_commit prop=C09 tier=quick timeout=900
eof_harness!(c09_eof_commit, 14, 2);
// @harness name=c09_eof_vote prop=C09 tier=quick timeout=900
eof_harness!(c09_eof_vote, 14, 0);
// @harness name=c09_eof_unknown6 prop=C09 tier=quick timeout=900
eof_harness!(c09_eof_unknown6, 14, 6);
// @harness name=c09_eof_unknown_hi prop=C09 tier=quick timeout=900
eof_harness!(c09_eof_unknown_hi, 14, 0x0200_0000);
