// @anchor src/raft_log/wal/flush_worker.rs
//! C04 (unit level) — the mechanism behind "a flush is acknowledged only when
//! everything journalled before it is durably synced": the real
//! `FlushWorker::sync_all_files`, called on a worker that tracks N files
//! (N-1 closed chunk files + the open one), with `fdatasync` failing at
//! symbolic positions. `run_inner` sends `Ok` to the callbacks of a batch iff
//! this function returned `Ok` (flush_worker.rs, read, not encoded: the whole
//! worker loop is out of reach of CBMC, see DESIGN.md §C04).
//!
//! Ghost truth: per file `len` / `synced_len` / `n_sync_ok` in ghost_fs.
use super::*;
use crate::kani_support::ghost_fs as gfs;
use crate::kani_support::ktypes::*;
use super::kani_h_a_worker::*;

fn mk_file(slot: usize, chunk_id: u64) -> Arc<File> {
    let g = gfs::fs();
    let len: u64 = kani::any();
    let synced: u64 = kani::any();
    kani::assume(len <= 8 && synced <= len);
    g.files[slot].used = true;
    g.files[slot].exists = true;
    g.files[slot].chunk_id = chunk_id;
    g.files[slot].len = len;
    g.files[slot].pos = len;
    g.files[slot].synced_len = synced;
    let f = Arc::new(gfs::mk_file(slot));
    // never reach close(): keep one reference alive for ever
    core::mem::forget(f.clone());
    f
}

fn in_files(w: &FlushWorker<KTypes>, slot: usize) -> bool {
    let mut found = false;
    let mut i = 0;
    while i < 3 {
        if i < w.files.len() {
            if gfs::slot_of_file(&w.files[i].f) == slot {
                found = true;
            }
        }
        i += 1;
    }
    found
}

/// `n` files tracked (slots 0..n, oldest first); at most `maxf` sync failures.
fn sync_unit(n: usize, maxf: u8) {
    let g = gfs::fs();
    g.faults = maxf > 0;
    g.max_faults = maxf;
    let ids: [Option<(u8, u8)>; 3] = [None, Some((1, 3)), Some((2, 6))];
    let mut files: Vec<FileEntry<KTypes>> = Vec::with_capacity(3);
    let mut i = 0;
    while i < 3 {
        if i < n {
            let f = mk_file(i, (i as u64) * 16);
            files.push(FileEntry::<KTypes>::new((i as u64) * 16, f, ids[i]));
        }
        i += 1;
    }
    let (tx, rx) = crate::kani_support::ghost_chan::sync_channel::<SeqRequest<KTypes>>(8);
    let cache = Arc::new(RwLock::new(PayloadCache::<KTypes>::new(4, 16)));
    let le0: Option<(u8, u8)> = kani::any();
    cache.write().unwrap().set_last_evictable(le0);
    let mut w = mk_worker(rx, files, cache.clone(), Arc::new(AtomicU64::new(0)));

    let off: u64 = kani::any();
    let res = w.sync_all_files(off);
    let ok = crate::kani_support::common::is_ok(res);

    let g = gfs::fs();
    let mut i = 0;
    while i < 3 {
        if i < n {
            let f = &g.files[i];
            if ok {
                // acknowledged => every tracked file has been successfully
                // synced after all its bytes were written
                assert!(f.n_sync_ok >= 1 && f.synced_len == f.len, "Ok although a tracked file is not durably synced");
            }
            // C04 last sentence: a file whose sync has not succeeded must not
            // be forgotten, otherwise the next flush acknowledges data that
            // was never synced
            if f.n_sync_ok == 0 {
                assert!(in_files(&w, i), "file dropped from the sync list although its fdatasync never succeeded");
            }
        }
        i += 1;
    }
    // the open (newest) file stays tracked, as the last entry
    assert!(w.files.len() >= 1);
    assert!(gfs::slot_of_file(&w.files[w.files.len() - 1].f) == n - 1);
    if ok {
        assert!(w.files.len() == 1, "closed files are released once synced");
        assert!(w.files[0].sync_id == off);
    }
    // C07/C15 side: the eviction boundary only moves to "everything before
    // the open file" after all older files were synced successfully
    let le1 = cache.read().unwrap().last_evictable().cloned();
    if le1 != le0 {
        assert!(le1 == ids[n - 1]);
        let mut j = 0;
        while j < 3 {
            if j + 1 < n {
                assert!(g.files[j].n_sync_ok >= 1, "eviction boundary advanced past an unsynced closed chunk");
            }
            j += 1;
        }
    }
    kani::cover!(ok, "all syncs succeed");
    if maxf > 0 {
        kani::cover!(!ok, "a sync fails");
    }
    core::mem::forget(w);
    core::mem::forget(tx);
    core::mem::forget(cache);
}

macro_rules! sync_harness {
    ($name:ident, $n:expr, $maxf:expr) => {
        #[kani::proof]
        #[kani::unwind(5)]
        #[kani::stub(alloc::fmt::format, crate::kani_support::stubs::fmt_format)]
        #[kani::stub(core::fmt::write, crate::kani_support::stubs::fmt_write)]
        #[kani::stub(<core::io::CustomOwner as core::ops::Drop>::drop, crate::kani_support::stubs::custom_owner_drop)]
        #[kani::stub(<std::io::Error as core::fmt::Display>::fmt, crate::kani_support::stubs::io_error_display)]
        #[kani::stub(<std::io::Error as core::fmt::Debug>::fmt, crate::kani_support::stubs::io_error_display)]
        #[kani::stub(std::fs::File::sync_data, crate::kani_support::stubs::file_sync_data)]
        fn $name() {
            sync_unit($n, $maxf);
        }
    };
}

// fault-free: the positive half of C04 at unit level
// @harness name=c04_sync_n1_ok prop=C04 tier=quick timeout=600 allow_unsat=fails
sync_harness!(c04_sync_n1_ok, 1, 0);
// @harness name=c04_sync_n2_ok prop=C04 tier=quick timeout=600 allow_unsat=fails
sync_harness!(c04_sync_n2_ok, 2, 0);
// @harness name=c04_sync_n3_ok prop=C04 tier=quick timeout=600 allow_unsat=fails
sync_harness!(c04_sync_n3_ok, 3, 0);
// with fdatasync failures at symbolic positions
// @harness name=c04_sync_n1_f prop=C04 tier=quick timeout=600
sync_harness!(c04_sync_n1_f, 1, 1);
// @harness name=c04_sync_n2_f prop=C04 tier=quick timeout=900
sync_harness!(c04_sync_n2_f, 2, 2);
// @harness name=c04_sync_n3_f prop=C04 tier=quick timeout=900
sync_harness!(c04_sync_n3_f, 3, 2);

// ---- the caller side of the acknowledgement contract ----
// The worker harnesses (c04_worker.rs) run scripts in which every Write carries
// `sync = true`, the journal end as `upto_offset` and all bytes journalled so
// far. This harness checks that this is what the real `RaftLog::flush` hands
// over, with and without a callback (a flush without a callback must still
// request the sync: a later flush that finds nothing new to write relies on it).
// @harness name=c04_flush_request_shape prop=C04 tier=quick timeout=1500
crate::kani_support::env_proof! {
    unwind = 6, rot = ghost, crc = off,
    #[kani::stub(crate::raft_log::wal::RaftLogWAL::send_request, crate::raft_log::wal::kani_h_a_wal::stub_send_request)]
    fn c04_flush_request_shape() {
        use crate::api::raft_log_writer::RaftLogWriter;
        use crate::kani_support::common::*;
        use crate::kani_support::ktypes::*;
        use crate::raft_log::wal::kani_h_a_wal as aw;
        let cfg = mk_config(None, None, None, None);
        let mut rl: crate::RaftLog<RTypes> = open_empty(cfg);
        let v: (u8, u8) = kani::any();
        assert!(is_ok(rl.save_vote(v)));
        let pend0 = crate::chunk::open_chunk::kani_h_a_open_chunk::pending_len(&rl.wal.open);
        let end0 = rl.wal.open.chunk.global_end();
        assert!(is_ok(rl.flush(None)), "flush failed");
        assert!(is_ok(rl.flush(Some(GhostCb { id: 1 }))), "flush failed");
        unsafe {
            assert!(aw::N_SENT_WRITES == 2 && aw::N_SENT_OTHER == 0, "each flush hands exactly one Write to the worker");
            let a = aw::SENT_WRITES[0];
            let b = aw::SENT_WRITES[1];
            assert!(a.sync && b.sync, "a flush must request a sync whether or not a callback is attached");
            assert!(a.upto == end0 && b.upto == end0, "upto_offset is not the journal end");
            assert!(a.len == pend0 && pend0 > 0 && b.len == 0, "flush does not hand over exactly the bytes journalled since the previous flush");
            assert!(!a.has_cb && b.has_cb, "callback not attached to its own flush request");
        }
        assert!(crate::chunk::open_chunk::kani_h_a_open_chunk::pending_len(&rl.wal.open) == 0);
        kani::cover!(true, "two flushes observed");
        core::mem::forget(rl);
    }
}
