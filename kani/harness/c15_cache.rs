// @anchor src/raft_log/state_machine/payload_cache.rs
//! C15 — payload cache accounting is exact; only pinned entries may exceed
//! the limits. Unit level: one real PayloadCache operation from an arbitrary
//! cache state that satisfies the representation invariant
//! (size == sum of payload sizes of resident entries).
use super::*;
use crate::kani_support::ktypes::*;
use crate::kani_support::stubs;

type Id = (u8, u8);

fn any_cache() -> PayloadCache<KTypes> {
    let k0: Id = kani::any();
    let k1: Id = kani::any();
    let k2: Id = kani::any();
    kani::assume(k0 < k1 && k1 < k2);
    let len: usize = kani::any();
    kani::assume(len <= 3);
    let v0: P = kani::any();
    let v1: P = kani::any();
    let v2: P = kani::any();
    let map = BTreeMap::from_sorted3((k0, v0), (k1, v1), (k2, v2), len);
    let max_items: usize = kani::any();
    let capacity: usize = kani::any();
    kani::assume(max_items <= 4 && capacity <= 12);
    let le: Option<Id> = kani::any();
    let c = PayloadCache::<KTypes> {
        max_items,
        capacity,
        size: 0,
        cache: map,
        last_evictable: le,
    };
    let s = sum_resident(&c);
    PayloadCache { size: s, ..c }
}

fn sum_resident(c: &PayloadCache<KTypes>) -> usize {
    let mut s = 0usize;
    let mut i = 0;
    while i < crate::kani_support::slotmap::CAP {
        if let Some((_, v)) = c.cache.slot(i) {
            s += v.n as usize;
        }
        i += 1;
    }
    s
}

fn all_above_boundary(c: &PayloadCache<KTypes>) -> bool {
    let mut ok = true;
    let mut i = 0;
    while i < crate::kani_support::slotmap::CAP {
        if let Some((k, _)) = c.cache.slot(i) {
            ok = ok && Some(k) > c.last_evictable.as_ref();
        }
        i += 1;
    }
    ok
}

fn post(c: &PayloadCache<KTypes>) {
    assert!(c.cache.well_formed());
    assert!(c.total_size() == sum_resident(c), "reported size == sum of resident payload sizes");
    assert!(c.item_count() == c.cache.len());
}

// @harness name=c15_insert prop=C15 tier=quick timeout=900 replay=playback
#[kani::proof]
#[kani::unwind(6)]
fn c15_insert() {
    let mut c = any_cache();
    let k: Id = kani::any();
    let v: P = kani::any();
    // precondition discharged by c15_sm_*: an accepted append is never resident
    kani::assume(c.cache.get(&k).is_none());
    let before = c.cache.len();
    kani::assume(before <= 3);
    c.insert(k, v);
    post(&c);
    // only pinned entries may exceed the limits
    if c.item_count() > c.max_items() || c.total_size() > c.capacity() {
        assert!(all_above_boundary(&c), "over the limit => every resident entry is above the evictable boundary");
        kani::cover!(true, "cache over limit with pinned entries");
    }
    kani::cover!(c.cache.len() < before + 1, "insert evicted something");
    kani::cover!(c.cache.len() == before + 1, "insert evicted nothing");
}

// @harness name=c15_try_evict prop=C15 tier=quick timeout=900 replay=playback
#[kani::proof]
#[kani::unwind(6)]
fn c15_try_evict() {
    let mut c = any_cache();
    c.try_evict();
    post(&c);
    if c.item_count() > c.max_items() || c.total_size() > c.capacity() {
        assert!(all_above_boundary(&c));
    }
    kani::cover!(c.cache.len() == 0, "evicted everything");
}

// @harness name=c15_drain prop=C15 tier=quick timeout=900 replay=playback
#[kani::proof]
#[kani::unwind(6)]
fn c15_drain() {
    let mut c = any_cache();
    let before = c.cache.len();
    c.drain_evictable();
    post(&c);
    assert!(all_above_boundary(&c), "after drain no resident entry is at or below the boundary");
    kani::cover!(c.cache.len() < before, "drained something");
    kani::cover!(c.cache.len() == before && before > 0, "drained nothing");
}

// @harness name=c15_truncate_after prop=C15 tier=quick timeout=900 replay=playback
#[kani::proof]
#[kani::unwind(6)]
fn c15_truncate_after() {
    let mut c = any_cache();
    let k: Id = kani::any();
    let before = c.cache.len();
    c.truncate_after(&k);
    post(&c);
    // exactly the entries with id > k are gone
    let mut i = 0;
    while i < crate::kani_support::slotmap::CAP {
        if let Some((key, _)) = c.cache.slot(i) {
            assert!(*key <= k);
        }
        i += 1;
    }
    kani::cover!(c.cache.len() < before, "truncated something");
    kani::cover!(c.cache.len() == before && before > 0, "truncated nothing");
}

// @harness name=c15_purge_upto prop=C15 tier=quick timeout=900 replay=playback
#[kani::proof]
#[kani::unwind(6)]
fn c15_purge_upto() {
    let mut c = any_cache();
    let k: Id = kani::any();
    let before = c.cache.len();
    c.purge_upto(&k);
    post(&c);
    kani::cover!(c.cache.len() < before, "purged something");
    kani::cover!(c.cache.len() == before && before > 0, "purged nothing (pinned or above)");
}

// @harness name=c15_clear_setle prop=C15 tier=quick timeout=900 replay=playback
#[kani::proof]
#[kani::unwind(6)]
fn c15_clear_setle() {
    let mut c = any_cache();
    let le: Option<Id> = kani::any();
    c.set_last_evictable(le);
    post(&c);
    assert!(c.last_evictable() == le.as_ref());
    c.clear();
    post(&c);
    assert!(c.item_count() == 0 && c.total_size() == 0);
    kani::cover!(true, "reached");
}
