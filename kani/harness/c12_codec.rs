// @anchor src/raft_log/wal/wal_record.rs
//! C12 — record codec round-trips and decoding is total.
//!
//! Real functions encoded: WALRecord::{encode,decode}, RaftLogState::{encode,
//! decode}, codeq ChecksumWriter/ChecksumReader, Option/tuple/u64/u8 codecs,
//! crc32fast's table implementation (Hasher::new is redirected to the
//! baseline implementation because the SIMD one is behind cpuid inline asm).
//!
//! Shape discipline: CBMC's symbolic execution only keeps a value concrete
//! along assignments, so every harness fixes the *shape* of the record
//! (variant, Option pattern, payload length) concretely and leaves all *values*
//! symbolic; shapes are enumerated exhaustively by macro-generated harnesses.
use codeq::Decode;
use codeq::Encode;

use crate::WALRecord;
use crate::kani_support::ktypes::*;
use crate::kani_support::stubs;
use crate::raft_log::state_machine::raft_log_state::RaftLogState;

fn set_tag(buf: &mut [u8], tag: u32) {
    // concrete tag bytes: symbolic execution then follows one match arm
    let t = tag.to_be_bytes();
    buf[0] = t[0];
    buf[1] = t[1];
    buf[2] = t[2];
    buf[3] = t[3];
}

fn any_id() -> (u64, u64) {
    (kani::any(), kani::any())
}

fn roundtrip<T: crate::Types>(rec: WALRecord<T>, exact_len: usize)
where WALRecord<T>: PartialEq {
    let mut buf: Vec<u8> = Vec::new();
    let n = rec.encode(&mut buf).unwrap();
    assert!(n == buf.len(), "encoder reports the number of bytes it wrote");
    assert!(n == exact_len, "frame length of this shape");
    let mut rd: &[u8] = &buf[..];
    let got = WALRecord::<T>::decode(&mut rd);
    match got {
        Ok(r2) => {
            assert!(r2 == rec, "decode(encode(r)) == r");
            assert!(rd.is_empty(), "decoder consumed exactly the encoded bytes");
        }
        Err(e) => {
            core::mem::forget(e);
            assert!(false, "decode of encoded record failed");
        }
    }
    kani::cover!(true, "roundtrip reached end");
    core::mem::forget(buf);
}

macro_rules! rt_harness {
    ($name:ident, $unwind:expr, $ty:ty, $len:expr, $rec:expr) => {
        #[kani::proof]
        #[kani::unwind($unwind)]
        #[kani::stub(crc32fast::Hasher::new, stubs::crc_new)]
        #[kani::stub(alloc::fmt::format, stubs::fmt_format)]
        fn $name() {
            let rec: WALRecord<$ty> = $rec;
            roundtrip::<$ty>(rec, $len);
        }
    };
}

fn p_of<const N: usize>(n: u8) -> PN<N> {
    PN::new(n, if n == 0 { 0 } else { kani::any() })
}

// all u64 values, fixed-size variants (frame = 4 tag + 16 + 8 checksum)
// @harness name=c12_rt_vote prop=C12 tier=quick timeout=900 replay=playback
rt_harness!(c12_rt_vote, 34, WTypes, 28, WALRecord::SaveVote(any_id()));
// @harness name=c12_rt_commit prop=C12 tier=quick timeout=900 replay=playback
rt_harness!(c12_rt_commit, 34, WTypes, 28, WALRecord::Commit(any_id()));
// @harness name=c12_rt_purge prop=C12 tier=quick timeout=900 replay=playback
rt_harness!(c12_rt_purge, 34, WTypes, 28, WALRecord::PurgeUpto(any_id()));
// @harness name=c12_rt_truncate_none prop=C12 tier=quick timeout=900 replay=playback
rt_harness!(c12_rt_truncate_none, 34, WTypes, 13, WALRecord::TruncateAfter(None));
// @harness name=c12_rt_truncate_some prop=C12 tier=quick timeout=900 replay=playback
rt_harness!(c12_rt_truncate_some, 34, WTypes, 29, WALRecord::TruncateAfter(Some(any_id())));
// payload lengths 0..=3 (P writes a length byte + n bytes)
// @harness name=c12_rt_append_n0 prop=C12 tier=quick timeout=900 replay=playback
rt_harness!(c12_rt_append_n0, 36, WTypes, 29, WALRecord::Append(any_id(), p_of(0)));
// @harness name=c12_rt_append_n1 prop=C12 tier=quick timeout=900 replay=playback
rt_harness!(c12_rt_append_n1, 36, WTypes, 30, WALRecord::Append(any_id(), p_of(1)));
// @harness name=c12_rt_append_n3 prop=C12 tier=quick timeout=900 replay=playback
rt_harness!(c12_rt_append_n3, 36, WTypes, 32, WALRecord::Append(any_id(), p_of(3)));
// @harness name=c12_rt_append_n2 prop=C12 tier=thorough timeout=900 replay=playback
rt_harness!(c12_rt_append_n2, 36, WTypes, 31, WALRecord::Append(any_id(), p_of(2)));

/// State with the Option pattern `pat` (bit k set = k-th field is Some; order
/// vote,last,committed,purged,user_data), all values symbolic. KTypes (u8 ids):
/// the same round trip with u64 ids (83-byte frame) did not finish in 25 min.
fn state_k(pat: u8) -> RaftLogState<KTypes> {
    RaftLogState {
        vote: if pat & 1 != 0 { Some(kani::any()) } else { None },
        last: if pat & 2 != 0 { Some(kani::any()) } else { None },
        committed: if pat & 4 != 0 { Some(kani::any()) } else { None },
        purged: if pat & 8 != 0 { Some(kani::any()) } else { None },
        user_data: if pat & 16 != 0 { Some(kani::any()) } else { None },
    }
}

const fn state_k_len(pat: u8) -> usize {
    let ids = (pat & 1) + ((pat >> 1) & 1) + ((pat >> 2) & 1) + ((pat >> 3) & 1);
    4 + 1 + 5 + 2 * ids as usize + ((pat >> 4) & 1) as usize + 8
}

/// Encoder half of the State round trip (the decoder half is
/// `decode_state_pattern`: an accepted frame of this layout yields exactly the
/// field values found at these positions). Running encode and decode of a
/// State record in ONE harness exhausted 7 GB even for the all-None pattern;
/// the two halves compose to decode(encode(s)) == s because both are stated
/// against the same explicit byte layout:
///   [0,0,0,5] [ver=1] { [0] | [1] field-bytes }x5 [crc32 as u64 BE].
fn roundtrip_state_k(pat: u8) {
    const L: usize = 27;
    let st = state_k(pat);
    // RaftLogState::encode on its own (the WALRecord framing around it - type
    // word, checksum - is the code path the other kinds' round trips cover;
    // the framed State encoder produced a 74 M-clause formula)
    let mut v: Vec<u8> = Vec::new();
    let n0 = st.encode(&mut v).unwrap();
    assert!(n0 == v.len(), "encoder reports the number of bytes it wrote");
    let n = n0 + 12;
    assert!(n == state_k_len(pat), "frame length of this shape");
    let mut buf = [0u8; L];
    let mut i = 0;
    while i < L {
        if i < n0 {
            buf[i + 4] = v[i];
        }
        i += 1;
    }
    assert!(buf[4] == 1, "state version");
    let mut q = 5;
    if pat & 1 != 0 {
        let x = st.vote.unwrap_or_default();
        assert!(buf[q] == 1 && buf[q + 1] == x.0 && buf[q + 2] == x.1, "vote bytes");
        q += 3;
    } else {
        assert!(buf[q] == 0);
        q += 1;
    }
    if pat & 2 != 0 {
        let x = st.last.unwrap_or_default();
        assert!(buf[q] == 1 && buf[q + 1] == x.0 && buf[q + 2] == x.1, "last bytes");
        q += 3;
    } else {
        assert!(buf[q] == 0);
        q += 1;
    }
    if pat & 4 != 0 {
        let x = st.committed.unwrap_or_default();
        assert!(buf[q] == 1 && buf[q + 1] == x.0 && buf[q + 2] == x.1, "committed bytes");
        q += 3;
    } else {
        assert!(buf[q] == 0);
        q += 1;
    }
    if pat & 8 != 0 {
        let x = st.purged.unwrap_or_default();
        assert!(buf[q] == 1 && buf[q + 1] == x.0 && buf[q + 2] == x.1, "purged bytes");
        q += 3;
    } else {
        assert!(buf[q] == 0);
        q += 1;
    }
    if pat & 16 != 0 {
        let x = st.user_data.unwrap_or_default();
        assert!(buf[q] == 1 && buf[q + 1] == x, "user data bytes");
        q += 2;
    } else {
        assert!(buf[q] == 0);
        q += 1;
    }
    assert!(q + 8 == n);
    kani::cover!(true, "roundtrip reached end");
    core::mem::forget(v);
}

macro_rules! rt_state_harness {
    ($name:ident, $pat:expr) => {
        #[kani::proof]
        #[kani::unwind(34)]
        #[kani::stub(crc32fast::Hasher::new, stubs::crc_new)]
        #[kani::stub(alloc::fmt::format, stubs::fmt_format)]
        fn $name() {
            roundtrip_state_k($pat);
        }
    };
}

// @harness name=c12_rt_state_k1f prop=C12 tier=quick timeout=1500 replay=playback
rt_state_harness!(c12_rt_state_k1f, 0x1f);
// @harness name=c12_rt_state_k00 prop=C12 tier=quick timeout=900 replay=playback
rt_state_harness!(c12_rt_state_k00, 0);
// @harness name=c12_rt_state_k15 prop=C12 tier=quick timeout=1200 replay=playback
rt_state_harness!(c12_rt_state_k15, 0x15);
// @harness name=c12_rt_state_k0a prop=C12 tier=quick timeout=1200 replay=playback
rt_state_harness!(c12_rt_state_k0a, 0x0a);
// @harness name=c12_rt_state_k03 prop=C12 tier=thorough timeout=1200 replay=playback
rt_state_harness!(c12_rt_state_k03, 0x03);
// @harness name=c12_rt_state_k1c prop=C12 tier=thorough timeout=1200 replay=playback
rt_state_harness!(c12_rt_state_k1c, 0x1c);
// @harness name=c12_rt_state_k10 prop=C12 tier=thorough timeout=1200 replay=playback
rt_state_harness!(c12_rt_state_k10, 0x10);
// @harness name=c12_rt_state_k0f prop=C12 tier=thorough timeout=1200 replay=playback
rt_state_harness!(c12_rt_state_k0f, 0x0f);

// ---------------------------------------------------------------- decoding

/// Re-encode `rec` (concrete shape) and compare with the accepted bytes.
fn check_canonical<T: crate::Types>(rec: WALRecord<T>, buf: &[u8], consumed: usize) {
    let mut out: Vec<u8> = Vec::new();
    let n = rec.encode(&mut out).unwrap();
    assert!(n == consumed, "decoder consumed what the encoder produces");
    let mut i = 0;
    while i < buf.len() {
        if i < n {
            assert!(out[i] == buf[i], "accepted bytes are canonical");
        }
        i += 1;
    }
    core::mem::forget(out);
    core::mem::forget(rec);
}

/// Decoding arbitrary bytes (buffer of exactly the frame length L of a
/// fixed-shape record, tag fixed, everything else symbolic): no panic; an
/// accepted buffer is exactly the canonical encoding of the record it yields
/// (so a decoder that skips the checksum, mixes up variants or field order, or
/// reports a wrong length fails).
fn decode_total_fixed<const L: usize>(tag: u32) {
    let mut buf: [u8; L] = kani::any();
    set_tag(&mut buf, tag);
    let mut rd: &[u8] = &buf[..];
    let got = WALRecord::<KTypes>::decode(&mut rd);
    let consumed = L - rd.len();
    match got {
        Ok(rec) => {
            kani::cover!(true, "some buffer is accepted");
            // The value coming out of `decode` is a merge of all return paths:
            // rebuild it with a concrete variant inside each arm.
            match (tag, rec) {
                (0, WALRecord::SaveVote(v)) => check_canonical::<KTypes>(WALRecord::SaveVote(v), &buf, consumed),
                (2, WALRecord::Commit(a)) => check_canonical::<KTypes>(WALRecord::Commit(a), &buf, consumed),
                (4, WALRecord::PurgeUpto(a)) => check_canonical::<KTypes>(WALRecord::PurgeUpto(a), &buf, consumed),
                (_, r) => {
                    core::mem::forget(r);
                    assert!(false, "decoded variant does not match the tag");
                }
            }
        }
        Err(e) => {
            kani::cover!(true, "some buffer is rejected");
            core::mem::forget(e);
        }
    }
}

macro_rules! dec_harness {
    ($name:ident, $unwind:expr, $body:expr) => {
        #[kani::proof]
        #[kani::unwind($unwind)]
        #[kani::stub(crc32fast::Hasher::new, stubs::crc_new)]
        #[kani::stub(alloc::fmt::format, stubs::fmt_format)]
        fn $name() {
            $body;
        }
    };
}

// @harness name=c12_dec_vote_k prop=C12 tier=quick timeout=900 replay=playback
dec_harness!(c12_dec_vote_k, 20, decode_total_fixed::<14>(0));
// @harness name=c12_dec_commit_k prop=C12 tier=quick timeout=900 replay=playback
dec_harness!(c12_dec_commit_k, 20, decode_total_fixed::<14>(2));
// @harness name=c12_dec_purge_k prop=C12 tier=quick timeout=900 replay=playback
dec_harness!(c12_dec_purge_k, 20, decode_total_fixed::<14>(4));

/// TruncateAfter: Option tag byte concrete (`opt`: 0, 1, or an invalid value).
fn decode_truncate(opt: u8) {
    const L: usize = 15;
    let mut buf: [u8; L] = kani::any();
    set_tag(&mut buf, 3);
    buf[4] = opt;
    let mut rd: &[u8] = &buf[..];
    let got = WALRecord::<KTypes>::decode(&mut rd);
    let consumed = L - rd.len();
    match got {
        Ok(WALRecord::TruncateAfter(a)) => {
            if opt <= 1 {
                kani::cover!(true, "some buffer is accepted");
            }
            assert!(opt <= 1, "invalid Option tag accepted");
            if opt == 0 {
                assert!(a.is_none());
                check_canonical::<KTypes>(WALRecord::TruncateAfter(None), &buf, consumed);
            } else {
                assert!(a.is_some());
                let id = a.unwrap_or_default();
                check_canonical::<KTypes>(WALRecord::TruncateAfter(Some(id)), &buf, consumed);
            }
        }
        Ok(r) => {
            core::mem::forget(r);
            assert!(false, "decoded variant does not match the tag");
        }
        Err(e) => {
            kani::cover!(true, "some buffer is rejected");
            core::mem::forget(e);
        }
    }
}

// @harness name=c12_dec_truncate_none_k prop=C12 tier=quick timeout=900 replay=playback
dec_harness!(c12_dec_truncate_none_k, 20, decode_truncate(0));
// @harness name=c12_dec_truncate_some_k prop=C12 tier=quick timeout=900 replay=playback
dec_harness!(c12_dec_truncate_some_k, 20, decode_truncate(1));
// @harness name=c12_dec_truncate_bad_k prop=C12 tier=quick timeout=900 allow_unsat=accepted replay=playback
dec_harness!(c12_dec_truncate_bad_k, 20, decode_truncate(2));

/// Append: payload length byte concrete.
fn decode_append(n: u8) {
    const L: usize = 18;
    let mut buf: [u8; L] = kani::any();
    set_tag(&mut buf, 1);
    buf[6] = n;
    let mut rd: &[u8] = &buf[..];
    let got = WALRecord::<KTypes>::decode(&mut rd);
    let consumed = L - rd.len();
    match got {
        Ok(WALRecord::Append(id, p)) => {
            kani::cover!(true, "some buffer is accepted");
            assert!(n <= P_MAX && p.n == n);
            let p2 = P::new(n, if n == 0 { 0 } else { p.b });
            check_canonical::<KTypes>(WALRecord::Append(id, p2), &buf, consumed);
        }
        Ok(r) => {
            core::mem::forget(r);
            assert!(false, "decoded variant does not match the tag");
        }
        Err(e) => {
            kani::cover!(true, "some buffer is rejected");
            core::mem::forget(e);
        }
    }
}

// @harness name=c12_dec_append_n0_k prop=C12 tier=quick timeout=900 replay=playback
dec_harness!(c12_dec_append_n0_k, 22, decode_append(0));
// @harness name=c12_dec_append_n1_k prop=C12 tier=quick timeout=900 replay=playback
dec_harness!(c12_dec_append_n1_k, 22, decode_append(1));
// @harness name=c12_dec_append_n3_k prop=C12 tier=quick timeout=900 replay=playback
dec_harness!(c12_dec_append_n3_k, 22, decode_append(3));
// @harness name=c12_dec_append_n2_k prop=C12 tier=thorough timeout=900 replay=playback
dec_harness!(c12_dec_append_n2_k, 22, decode_append(2));

/// State record with the five Option tags fixed by `pat` (bit k set = Some),
/// all other bytes symbolic. KTypes: ver, vote(1+2), last, committed, purged,
/// user_data(1+1).
fn decode_state_pattern(pat: u8, ver: u8) {
    const L: usize = 27;
    let mut buf: [u8; L] = kani::any();
    set_tag(&mut buf, 5);
    buf[4] = ver;
    let mut p = 5; // after version byte
    let mut k = 0;
    while k < 5 {
        let some = (pat >> k) & 1 == 1;
        buf[p] = some as u8;
        p += 1;
        if some {
            p += if k == 4 { 1 } else { 2 };
        }
        k += 1;
    }
    let frame = p + 8;
    let mut rd: &[u8] = &buf[..];
    let got = WALRecord::<KTypes>::decode(&mut rd);
    let consumed = L - rd.len();
    match got {
        Ok(WALRecord::State(s)) => {
            if ver == 1 {
                kani::cover!(true, "some buffer is accepted");
            }
            assert!(ver == 1, "unsupported state version accepted");
            assert!(consumed == frame, "consumed exactly the frame of this Option pattern");
            // field-wise oracle (re-encoding a value whose Option discriminants
            // are merged/symbolic is what makes the formula explode): every
            // field equals the bytes at its position in the frame ...
            let mut q = 5;
            let id_at = |q: usize| -> Option<(u8, u8)> { Some((buf[q + 1], buf[q + 2])) };
            let vote = if pat & 1 != 0 { let v = id_at(q); q += 3; v } else { q += 1; None };
            let last = if pat & 2 != 0 { let v = id_at(q); q += 3; v } else { q += 1; None };
            let committed = if pat & 4 != 0 { let v = id_at(q); q += 3; v } else { q += 1; None };
            let purged = if pat & 8 != 0 { let v = id_at(q); q += 3; v } else { q += 1; None };
            let ud = if pat & 16 != 0 { let v = Some(buf[q + 1]); q += 2; v } else { q += 1; None };
            assert!(q + 8 == frame);
            assert!(s.vote == vote);
            assert!(s.last == last);
            assert!(s.committed == committed);
            assert!(s.purged == purged);
            assert!(s.user_data == ud);
            // ... and the stored checksum is the CRC-32 of the body (computed
            // independently, in one call), zero-extended to 64 bits.
            let mut h = crc32fast::Hasher::new();
            h.update(&buf[..q]);
            let crc = h.finalize();
            let stored = u64::from_be_bytes([
                buf[q], buf[q + 1], buf[q + 2], buf[q + 3], buf[q + 4], buf[q + 5], buf[q + 6], buf[q + 7],
            ]);
            assert!(stored == crc as u64, "accepted frame carries the right checksum");
            core::mem::forget(s);
        }
        Ok(r) => {
            core::mem::forget(r);
            assert!(false, "decoded variant does not match the tag");
        }
        Err(e) => {
            kani::cover!(true, "some buffer is rejected");
            core::mem::forget(e);
        }
    }
}

// @harness name=c12_dec_state_p00 prop=C12 tier=quick timeout=900 replay=playback
dec_harness!(c12_dec_state_p00, 34, decode_state_pattern(0, 1));
// @harness name=c12_dec_state_p1f prop=C12 tier=quick timeout=900 replay=playback
dec_harness!(c12_dec_state_p1f, 34, decode_state_pattern(0x1f, 1));
// @harness name=c12_dec_state_p15 prop=C12 tier=quick timeout=900 replay=playback
dec_harness!(c12_dec_state_p15, 34, decode_state_pattern(0x15, 1));
// @harness name=c12_dec_state_p0a prop=C12 tier=quick timeout=900 replay=playback
dec_harness!(c12_dec_state_p0a, 34, decode_state_pattern(0x0a, 1));
// @harness name=c12_dec_state_badver prop=C12 tier=quick timeout=900 allow_unsat=accepted replay=playback
dec_harness!(c12_dec_state_badver, 34, decode_state_pattern(0x1f, 2));
// @harness name=c12_dec_state_p03 prop=C12 tier=thorough timeout=900 replay=playback
dec_harness!(c12_dec_state_p03, 34, decode_state_pattern(0x03, 1));
// @harness name=c12_dec_state_p1c prop=C12 tier=thorough timeout=900 replay=playback
dec_harness!(c12_dec_state_p1c, 34, decode_state_pattern(0x1c, 1));
// @harness name=c12_dec_state_p10 prop=C12 tier=thorough timeout=900 replay=playback
dec_harness!(c12_dec_state_p10, 34, decode_state_pattern(0x10, 1));
// @harness name=c12_dec_state_p0f prop=C12 tier=thorough timeout=900 replay=playback
dec_harness!(c12_dec_state_p0f, 34, decode_state_pattern(0x0f, 1));

/// Every proper prefix (concrete lengths 0..L, fresh symbolic bytes each) of a
/// fixed-size frame is rejected without a panic and without consuming more
/// than is there.
fn decode_prefixes<const L: usize>(tag: u32) {
    let mut len = 0;
    while len < L {
        let mut buf: [u8; L] = kani::any();
        set_tag(&mut buf, tag);
        let mut rd: &[u8] = &buf[..len];
        let got = WALRecord::<KTypes>::decode(&mut rd);
        assert!(rd.len() <= len);
        match got {
            Ok(rec) => {
                core::mem::forget(rec);
                assert!(false, "a proper prefix of a fixed-size frame was accepted");
            }
            Err(e) => {
                kani::cover!(len + 1 == L, "almost complete buffer is rejected");
                core::mem::forget(e);
            }
        }
        len += 1;
    }
}

// @harness name=c12_dec_prefix_commit_k prop=C12 tier=quick timeout=900 replay=playback
dec_harness!(c12_dec_prefix_commit_k, 20, decode_prefixes::<14>(2));
// @harness name=c12_dec_prefix_vote_k prop=C12 tier=thorough timeout=900 replay=playback
dec_harness!(c12_dec_prefix_vote_k, 20, decode_prefixes::<14>(0));

/// Unknown record types are rejected whatever follows (concrete sample of
/// tags; a symbolic tag makes symbolic execution walk all seven arms).
fn decode_badtag() {
    let tags: [u32; 5] = [6, 7, 255, 0x0100_0000, u32::MAX];
    let mut k = 0;
    while k < 5 {
        let mut buf: [u8; 16] = kani::any();
        set_tag(&mut buf, tags[k]);
        let mut rd: &[u8] = &buf[..];
        let got = WALRecord::<KTypes>::decode(&mut rd);
        match got {
            Ok(r) => {
                core::mem::forget(r);
                assert!(false, "unknown record type accepted");
            }
            Err(e) => {
                kani::cover!(k == 4, "rejected");
                core::mem::forget(e);
            }
        }
        k += 1;
    }
}

// @harness name=c12_dec_badtag_k prop=C12 tier=quick timeout=600 replay=playback
dec_harness!(c12_dec_badtag_k, 20, decode_badtag());

/// Wide (u64) ids: decode of an arbitrary 28-byte Commit frame.
fn decode_commit_w() {
    const L: usize = 28;
    let mut buf: [u8; L] = kani::any();
    set_tag(&mut buf, 2);
    let mut rd: &[u8] = &buf[..];
    let got = WALRecord::<WTypes>::decode(&mut rd);
    let consumed = L - rd.len();
    match got {
        Ok(WALRecord::Commit(a)) => {
            kani::cover!(true, "some buffer is accepted");
            check_canonical::<WTypes>(WALRecord::Commit(a), &buf, consumed);
        }
        Ok(r) => {
            core::mem::forget(r);
            assert!(false, "decoded variant does not match the tag");
        }
        Err(e) => {
            kani::cover!(true, "some buffer is rejected");
            core::mem::forget(e);
        }
    }
}

// @harness name=c12_dec_commit_w prop=C12 tier=quick timeout=1200 replay=playback
dec_harness!(c12_dec_commit_w, 34, decode_commit_w());

// @harness name=zz_selftest_fail prop=SELFTEST tier=quick timeout=60 replay=playback
#[kani::proof]
fn zz_selftest_fail() {
    let x: u8 = kani::any();
    kani::cover!(x == 3, "x can be 3");
    assert!(x != 77, "x is never 77");
}
