// @anchor src/raft_log/wal/mod.rs
//! In-place support (child of wal/mod.rs).
use super::*;

pub(crate) fn sent_seq<T: Types>(w: &RaftLogWAL<T>) -> u64 {
    w.sent_seq
}

pub(crate) fn queue_sent<T: Types>(w: &RaftLogWAL<T>) -> usize {
    w.flush_tx.ghost_sent()
}

pub(crate) fn queue_pending<T: Types>(w: &RaftLogWAL<T>) -> usize {
    w.flush_tx.ghost_pending()
}

/// Rotation control for harnesses whose property does not depend on *where*
/// the journal is split (DESIGN.md §3.7): the decision function is replaced
/// by a ghost flag that is a compile-time-known global, so CBMC's symbolic
/// execution does not have to explore a chunk rotation after every write.
/// The real decision function is verified on its own (c11_full_decision).
pub(crate) static mut ROTATE_NOW: bool = false;

pub(crate) fn stub_is_open_chunk_full<T: Types>(_w: &RaftLogWAL<T>) -> bool {
    unsafe { ROTATE_NOW }
}
