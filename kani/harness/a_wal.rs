// @anchor src/raft_log/wal/mod.rs
//! In-place support (child of wal/mod.rs).
use super::*;

pub(crate) fn sent_seq<T: Types>(w: &RaftLogWAL<T>) -> u64 {
    w.sent_seq
}

pub(crate) fn queue_sent<T: Types>(w: &RaftLogWAL<T>) -> usize {
    w.flush_tx.ghost_sent()
}

pub(crate) fn queue_pending<T: Types>(w: &RaftLogWAL<T>) -> usize {
    w.flush_tx.ghost_pending()
}

/// Rotation control for harnesses whose property does not depend on *where*
/// the journal is split (DESIGN.md §3.7): the decision function is replaced
/// by a ghost flag that is a compile-time-known global, so CBMC's symbolic
/// execution does not have to explore a chunk rotation after every write.
/// The real decision function is verified on its own (c11_full_decision).
pub(crate) static mut ROTATE_NOW: bool = false;

pub(crate) fn stub_is_open_chunk_full<T: Types>(_w: &RaftLogWAL<T>) -> bool {
    unsafe { ROTATE_NOW }
}

/// Stub for `RaftLogWAL::send_request` that records what the caller hands to
/// the worker (used by c04_flush_request_shape): the Write requests of the last
/// calls with their sync flag, end offset, data length and callback presence.
#[derive(Clone, Copy)]
pub(crate) struct SentWrite {
    pub sync: bool,
    pub upto: u64,
    pub len: usize,
    pub has_cb: bool,
}
pub(crate) static mut SENT_WRITES: [SentWrite; 4] = [SentWrite { sync: false, upto: 0, len: 0, has_cb: false }; 4];
pub(crate) static mut N_SENT_WRITES: usize = 0;
pub(crate) static mut N_SENT_OTHER: usize = 0;

pub(crate) fn stub_send_request<T: Types>(w: &mut RaftLogWAL<T>, req: WorkerRequest<T>) -> Result<(), io::Error> {
    w.sent_seq += 1;
    match req {
        WorkerRequest::Write(wr) => unsafe {
            if N_SENT_WRITES < 4 {
                SENT_WRITES[N_SENT_WRITES] = SentWrite { sync: wr.sync, upto: wr.upto_offset, len: wr.data.len(), has_cb: wr.callback.is_some() };
            }
            N_SENT_WRITES += 1;
            core::mem::forget(wr);
        },
        other => {
            unsafe { N_SENT_OTHER += 1 };
            core::mem::forget(other);
        }
    }
    Ok(())
}
