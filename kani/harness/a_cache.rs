// @anchor src/raft_log/state_machine/payload_cache.rs
//! In-place support (child of payload_cache.rs): build / inspect a cache.
use super::*;

pub(crate) fn mk_cache<T: Types>(
    max_items: usize,
    capacity: usize,
    size: usize,
    cache: BTreeMap<T::LogId, T::LogPayload>,
    last_evictable: Option<T::LogId>,
) -> PayloadCache<T> {
    PayloadCache { max_items, capacity, size, cache, last_evictable }
}

pub(crate) fn size_field<T: Types>(c: &PayloadCache<T>) -> usize {
    c.size
}
