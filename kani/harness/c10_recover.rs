// @anchor src/chunk/mod.rs
//! C10 / C09 (unit level) — the decision logic of recovery:
//!  L2 `Chunk::handle_record_error`: a decode error at the tail becomes
//!     "truncate here" only for an incomplete record (UnexpectedEof) or an
//!     all-zero tail, and only when truncation is enabled; everything else is
//!     an error (corruption is reported, the file is left alone);
//!  L3 `Chunk::verify_trailing_zeros`: true iff every byte from the offset to
//!     the end of the file is zero (any tail length, any position of a
//!     non-zero byte);
//!  L4 `RecordIterator::next`: stops exactly at the file size, yields the
//!     record with its exact segment, reports a decode error once and then
//!     ends (no record skipped, none fabricated).
//! The codec lemma L1 (UnexpectedEof only when the input is exhausted) is in
//! c09_codec_eof. What is NOT encoded: the assembly of these pieces in
//! `Chunk::open` behind `BufReader` (all record bytes then travel through a
//! heap buffer and the decoder's control flow becomes symbolic at every
//! record; out of reach, see DESIGN.md).
use super::*;
use crate::kani_support::ghost_fs as gfs;
use crate::kani_support::ktypes::*;
use crate::kani_support::stubs;
use std::os::fd::FromRawFd;

const TAIL: usize = 6;

/// ghost file of `len` bytes whose bytes [from, len) are symbolic
fn ghost_file(len: u64) -> Arc<File> {
    let g = gfs::fs();
    g.track_bytes = true;
    unsafe { gfs::FORCE_SLOT = Some(0) };
    g.files[0].used = true;
    g.files[0].exists = true;
    g.files[0].chunk_id = 0;
    g.files[0].len = len;
    let f = Arc::new(gfs::mk_file(0));
    core::mem::forget(f.clone());
    f
}

macro_rules! rec_proof {
    (unwind = $u:expr, fn $name:ident() $body:block) => {
        #[kani::proof]
        #[kani::unwind($u)]
        #[kani::stub(crc32fast::Hasher::new, stubs::crc_new)]
        #[kani::stub(alloc::fmt::format, stubs::fmt_format)]
        #[kani::stub(core::fmt::write, stubs::fmt_write)]
        #[kani::stub(<core::io::CustomOwner as core::ops::Drop>::drop, stubs::custom_owner_drop)]
        #[kani::stub(<std::io::Error as core::fmt::Display>::fmt, stubs::io_error_display)]
        #[kani::stub(<std::io::Error as core::fmt::Debug>::fmt, stubs::io_error_display)]
        #[kani::stub(std::fs::File::metadata, stubs::file_metadata)]
        #[kani::stub(std::fs::Metadata::len, stubs::metadata_len)]
        #[kani::stub(<std::fs::File as std::os::unix::fs::FileExt>::read_at, stubs::file_read_at)]
        fn $name() $body
    };
}

fn any_tail(start: usize, n: usize) -> bool {
    // fill bytes [start, start+n) symbolically; return "all zero"
    let g = gfs::fs();
    let mut all_zero = true;
    let mut i = 0;
    while i < TAIL {
        if i < n {
            let b: u8 = kani::any();
            gfs::bytes(0)[start + i] = b;
            if b != 0 {
                all_zero = false;
            }
        }
        i += 1;
    }
    all_zero
}

// L3
// @harness name=c10_trailing_zeros prop=C10 tier=quick timeout=900
rec_proof! {
    unwind = 9,
    fn c10_trailing_zeros() {
        let start: usize = kani::any();
        let n: usize = kani::any();
        kani::assume(start <= 40 && n <= TAIL);
        let f = ghost_file((start + n) as u64);
        let all_zero = any_tail(start, n);
        let r = Chunk::<KTypes>::verify_trailing_zeros(f, start as u64, ChunkId(0));
        match r {
            Ok(z) => {
                assert!(z == all_zero, "verify_trailing_zeros disagrees with the file content");
                kani::cover!(z && n > 0, "non-empty zero tail");
                kani::cover!(!z, "non-zero byte in the tail");
                kani::cover!(n == 0, "empty tail");
            }
            Err(e) => {
                core::mem::forget(e);
                assert!(false, "verify_trailing_zeros failed although offset <= file size");
            }
        }
    }
}

fn kind_of(k: u8) -> io::ErrorKind {
    match k {
        0 => io::ErrorKind::UnexpectedEof,
        1 => io::ErrorKind::InvalidData,
        _ => io::ErrorKind::Other,
    }
}

fn handle_error_unit(k: u8, can_truncate: bool) {
    let start: usize = kani::any();
    let n: usize = kani::any();
    kani::assume(start <= 40 && n <= TAIL);
    // an incomplete record always has at least one byte missing, but it may
    // have any number of bytes present
    let f = ghost_file((start + n) as u64);
    let all_zero = any_tail(start, n);
    let base: u64 = kani::any();
    kani::assume(base <= 1000);
    let cfg = Config {
        truncate_incomplete_record: if can_truncate { kani::any::<bool>().then_some(true) } else { Some(false) },
        ..Default::default()
    };
    let err = io::Error::from(kind_of(k));
    let r = Chunk::<KTypes>::handle_record_error(err, f, base + start as u64, ChunkId(base), &cfg);
    let eof = k == 0;
    match r {
        Ok(t) => {
            assert!(t, "handle_record_error returned Ok(false)");
            assert!(can_truncate, "tail truncation although truncate_incomplete_record is off");
            assert!(eof || all_zero, "a damaged (non-zero, non-EOF) tail was classified as truncatable");
            kani::cover!(eof, "incomplete record truncated");
            kani::cover!(!eof && all_zero, "zero_tail truncated");
        }
        Err(e) => {
            assert!(!(can_truncate && (eof || all_zero)), "a torn or zero tail was refused although truncation is on");
            kani::cover!(!can_truncate, "refused: truncation_off");
            kani::cover!(can_truncate, "refused: damaged record");
            core::mem::forget(e);
        }
    }
    core::mem::forget(cfg);
}

// L2, one harness per error kind x flag (concrete shapes, symbolic tail)
// @harness name=c10_handle_eof_on prop=C10 tier=quick timeout=900 allow_unsat=refused,zero_tail
rec_proof! { unwind = 9, fn c10_handle_eof_on() { handle_error_unit(0, true); } }
// @harness name=c10_handle_eof_off prop=C10 tier=quick timeout=900 allow_unsat=truncated,damaged
rec_proof! { unwind = 9, fn c10_handle_eof_off() { handle_error_unit(0, false); } }
// @harness name=c10_handle_invalid_on prop=C10 tier=quick timeout=900 allow_unsat=incomplete,truncation_off
rec_proof! { unwind = 9, fn c10_handle_invalid_on() { handle_error_unit(1, true); } }
// @harness name=c10_handle_invalid_off prop=C10 tier=quick timeout=900 allow_unsat=truncated,damaged
rec_proof! { unwind = 9, fn c10_handle_invalid_off() { handle_error_unit(1, false); } }
// @harness name=c10_handle_other_on prop=C09 tier=quick timeout=900 allow_unsat=incomplete,truncation_off
rec_proof! { unwind = 9, fn c10_handle_other_on() { handle_error_unit(2, true); } }

// L4: the iterator agrees with the plain decoder on a buffer that holds
// exactly one frame ending at the end of the file (13-byte TruncateAfter(None),
// the shortest record; 14-byte Commit), and reports every proper prefix once
// as an incomplete record.
fn frame<const L: usize>(tag: u8, opt: Option<u8>) -> [u8; L] {
    let mut buf: [u8; L] = kani::any();
    buf[0] = 0;
    buf[1] = 0;
    buf[2] = 0;
    buf[3] = tag;
    if let Some(o) = opt {
        buf[4] = o;
    }
    buf
}

fn iter_vs_decode<const L: usize>(tag: u8, opt: Option<u8>) {
    let buf = frame::<L>(tag, opt);
    let plain_ok = {
        let mut rd: &[u8] = &buf[..];
        let r = <WALRecord<KTypes> as codeq::Decode>::decode(&mut rd);
        let ok = r.is_ok() && rd.is_empty();
        core::mem::forget(r);
        ok
    };
    let mut it = RecordIterator::<&[u8], KTypes>::new(&buf[..], L as u64, ChunkId(0));
    match it.next() {
        Some(Ok((seg, rec))) => {
            assert!(plain_ok, "iterator yields a record the decoder rejects");
            assert!(seg.offset == 0 && seg.size == L as u64, "segment of the only record");
            kani::cover!(true, "complete record at the very end of the file is recovered");
            core::mem::forget(rec);
        }
        Some(Err(e)) => {
            assert!(!plain_ok, "a complete valid record that ends exactly at the end of the file was reported as an error");
            kani::cover!(true, "damaged record reported");
            core::mem::forget(e);
        }
        None => assert!(false, "a record was skipped"),
    }
    assert!(it.next().is_none(), "iterator goes on after the end of the file / after an error");
    core::mem::forget(it);
}

// @harness name=c10_iter_end_truncnone prop=C10 tier=quick timeout=1200
rec_proof! { unwind = 20, fn c10_iter_end_truncnone() { iter_vs_decode::<13>(3, Some(0)); } }
// @harness name=c10_iter_end_commit prop=C10 tier=quick timeout=1200
rec_proof! { unwind = 20, fn c10_iter_end_commit() { iter_vs_decode::<14>(2, None); } }

fn iter_prefixes<const L: usize>(tag: u8, opt: Option<u8>) {
    let mut cut = 1;
    while cut < L {
        let buf = frame::<L>(tag, opt);
        let mut it = RecordIterator::<&[u8], KTypes>::new(&buf[..cut], cut as u64, ChunkId(0));
        match it.next() {
            Some(Err(e)) => {
                assert!(e.kind() == io::ErrorKind::UnexpectedEof, "a cut record is not reported as an incomplete record");
                kani::cover!(cut + 1 == L, "cut one byte short");
                core::mem::forget(e);
            }
            Some(Ok(r)) => {
                core::mem::forget(r);
                assert!(false, "a cut record was accepted");
            }
            None => assert!(false, "a cut record was skipped silently"),
        }
        assert!(it.next().is_none(), "iterator goes on after an error");
        core::mem::forget(it);
        cut += 1;
    }
}

// @harness name=c10_iter_cut_commit prop=C10 tier=quick timeout=1500
rec_proof! { unwind = 20, fn c10_iter_cut_commit() { iter_prefixes::<14>(2, None); } }

// L3 over several scan blocks (block size 8 through the from_elem stub, see
// stubs::vec_from_elem_block8): a 20-byte tail = blocks of 8 + 8 + 4 bytes, all
// bytes symbolic: the verdict is "all zero" iff every byte of every block is
// zero (a damaged record in front of a zero-filled tail is not a zero tail).
// @harness name=c09_trailing_zeros_blocks prop=C09 tier=quick timeout=1200
#[kani::proof]
#[kani::unwind(24)]
#[kani::stub(crc32fast::Hasher::new, stubs::crc_new)]
#[kani::stub(alloc::fmt::format, stubs::fmt_format)]
#[kani::stub(core::fmt::write, stubs::fmt_write)]
#[kani::stub(<core::io::CustomOwner as core::ops::Drop>::drop, stubs::custom_owner_drop)]
#[kani::stub(<std::io::Error as core::fmt::Display>::fmt, stubs::io_error_display)]
#[kani::stub(<std::io::Error as core::fmt::Debug>::fmt, stubs::io_error_display)]
#[kani::stub(std::fs::File::metadata, stubs::file_metadata)]
#[kani::stub(std::fs::Metadata::len, stubs::metadata_len)]
#[kani::stub(<std::fs::File as std::os::unix::fs::FileExt>::read_at, stubs::file_read_at)]
#[kani::stub(alloc::vec::from_elem, stubs::vec_from_elem_block8)]
fn c09_trailing_zeros_blocks() {
    const N: usize = 20;
    let f = ghost_file(N as u64);
    let mut all_zero = true;
    let mut i = 0;
    while i < N {
        let b: u8 = kani::any();
        gfs::bytes(0)[i] = b;
        if b != 0 {
            all_zero = false;
        }
        i += 1;
    }
    let r = Chunk::<KTypes>::verify_trailing_zeros(f, 0, ChunkId(0));
    match r {
        Ok(z) => {
            assert!(z == all_zero, "verify_trailing_zeros disagrees with the file content across scan blocks");
            kani::cover!(z, "zero tail spanning three blocks");
            kani::cover!(!z, "non-zero byte somewhere in three blocks");
        }
        Err(e) => {
            core::mem::forget(e);
            assert!(false, "verify_trailing_zeros failed although offset <= file size");
        }
    }
}

// `Config::truncate_incomplete_record` (a ghost constant in the replay
// harnesses): the field, or true.
// @harness name=c10_cfg_truncate_accessor prop=C10 tier=quick timeout=300
#[kani::proof]
fn c10_cfg_truncate_accessor() {
    let t: Option<bool> = kani::any();
    let c = Config { truncate_incomplete_record: t, ..Default::default() };
    assert!(c.truncate_incomplete_record() == t.unwrap_or(true), "truncate_incomplete_record is not 'the field, or true'");
    kani::cover!(t.is_none(), "default: truncation enabled");
    kani::cover!(t == Some(false), "truncation disabled");
    core::mem::forget(c);
}
