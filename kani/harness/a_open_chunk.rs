// @anchor src/chunk/open_chunk.rs
//! In-place support (child of open_chunk.rs).
use super::*;

pub(crate) fn pending_len<T: Types>(o: &OpenChunk<T>) -> usize {
    o.pending_data.len()
}

pub(crate) fn pending<T: Types>(o: &OpenChunk<T>) -> &[u8] {
    &o.pending_data[..]
}
