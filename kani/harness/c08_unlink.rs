// @anchor src/raft_log/wal/flush_worker.rs
//! C08 (c) — the real `FlushWorker::handle_non_flush_request` for a
//! RemoveChunks request naming one or two files: unlinked in list order
//! (= oldest first, the order in which `purge` schedules them), all of them,
//! nothing else.
use super::*;
use crate::kani_support::ghost_fs as gfs;
use crate::kani_support::ktypes::*;
use super::kani_h_a_worker::*;

fn mk_file(slot: usize, chunk_id: u64) -> Arc<File> {
    let g = gfs::fs();
    g.files[slot].used = true;
    g.files[slot].exists = true;
    g.files[slot].chunk_id = chunk_id;
    g.files[slot].len = 4;
    let f = Arc::new(gfs::mk_file(slot));
    core::mem::forget(f.clone());
    f
}

fn unlink_unit(two: bool) {
    let _f0 = mk_file(0, 0);
    let _f1 = mk_file(1, 100);
    let f2 = mk_file(2, 200);
    let (tx, rx) = crate::kani_support::ghost_chan::sync_channel::<SeqRequest<KTypes>>(8);
    let cache = Arc::new(RwLock::new(PayloadCache::<KTypes>::new(4, 16)));
    let mut files: Vec<FileEntry<KTypes>> = Vec::with_capacity(1);
    files.push(FileEntry::<KTypes>::new(200, f2, None));
    let mut w = mk_worker(rx, files, cache, Arc::new(AtomicU64::new(0)));
    let mut paths: Vec<String> = Vec::with_capacity(2);
    paths.push(gfs::path_of_slot(0));
    if two {
        paths.push(gfs::path_of_slot(1));
    }
    let r = handle_nf(&mut w, WorkerRequest::RemoveChunks { chunk_paths: paths });
    assert!(crate::kani_support::common::is_ok(r));
    let g = gfs::fs();
    assert!(g.n_unlink == if two { 2 } else { 1 }, "not every listed chunk file was unlinked");
    assert!(g.unlinked[0] == 0, "unlink is not oldest-first");
    if two {
        assert!(g.unlinked[1] == 1);
    }
    assert!(!g.files[0].exists && g.files[2].exists && g.files[1].exists != two);
    kani::cover!(true, "reached");
    core::mem::forget(w);
    core::mem::forget(tx);
}

macro_rules! unlink_harness {
    ($name:ident, $two:expr) => {
        #[kani::proof]
        #[kani::unwind(5)]
        #[kani::stub(alloc::fmt::format, crate::kani_support::stubs::fmt_format)]
        #[kani::stub(core::fmt::write, crate::kani_support::stubs::fmt_write)]
        #[kani::stub(<core::io::CustomOwner as core::ops::Drop>::drop, crate::kani_support::stubs::custom_owner_drop)]
        #[kani::stub(<std::io::Error as core::fmt::Display>::fmt, crate::kani_support::stubs::io_error_display)]
        #[kani::stub(<std::io::Error as core::fmt::Debug>::fmt, crate::kani_support::stubs::io_error_display)]
        #[kani::stub(std::fs::remove_file, crate::kani_support::stubs::remove_file)]
        fn $name() {
            unlink_unit($two);
        }
    };
}

// @harness name=c08_unlink_one prop=C08 tier=quick timeout=900
unlink_harness!(c08_unlink_one, false);
// @harness name=c08_unlink_two prop=C08 tier=quick timeout=900
unlink_harness!(c08_unlink_two, true);
