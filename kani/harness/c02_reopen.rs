// @anchor src/raft_log/raft_log.rs
//! C02 / C03 / C05 / C09 — the real `RaftLog::open` replaying chunk-file images.
//!
//! The directory is a ghost file system holding 1..3 chunk files laid down by
//! `kani_support::image::Img` (record *shapes* and file lengths concrete,
//! every id / vote / payload byte / user datum symbolic). The records are
//! constrained to be a history the reference model accepts (what a store can
//! have journalled: C06, C11), `RaftLog::open` is run for real — directory
//! listing, `Chunk::open`, `RecordIterator`, the codec, tail recovery,
//! `RaftLogStateMachine::apply`, cache boundary, `reopen_last_closed` /
//! `OpenChunk::create` — and the opened store is compared with the model
//! state after the same records.
use super::*;
use crate::api::raft_log_writer::RaftLogWriter;
use crate::kani_support::common::*;
use crate::kani_support::ghost_fs as gfs;
use crate::kani_support::image::Img;
use crate::kani_support::ktypes::*;
use crate::kani_support::model::*;
use crate::kani_support::replay_proof;

fn empty_model() -> Model {
    Model { vote: None, last: None, committed: None, purged: None, user_data: None, n: 0, e: [((0, 0), P::new(0, 0)); 3] }
}

fn open(c: Arc<Config>) -> Option<RaftLog<RTypes>> {
    match RaftLog::<RTypes>::open(c) {
        Ok(rl) => Some(rl),
        Err(e) => {
            core::mem::forget(e);
            None
        }
    }
}

fn any_id() -> Id {
    let a: Id = kani::any();
    kani::assume(a.1 < 250);
    a
}

/// entries journalled in the chunk that is open for appending are pinned in the
/// cache: the eviction boundary lies below every one of them (they cannot be
/// read back from a closed chunk)
fn assert_open_pinned(rl: &RaftLog<RTypes>) {
    let boundary: Option<Id> = rl.state_machine.payload_cache.read().unwrap().last_evictable().copied();
    let open_id = rl.wal.open.chunk.chunk_id();
    let mut i = 0;
    while i < 4 {
        if let Some((_k, d)) = rl.state_machine.log.slot(i) {
            if d.chunk_id == open_id {
                assert!(Some(d.log_id) > boundary, "an entry of the open chunk is evictable");
            }
        }
        i += 1;
    }
}

/// the file that continues the journal ends exactly where the journal ends
/// (the next write lands where the offsets say it does)
fn assert_open_file_consistent(rl: &RaftLog<RTypes>) {
    let slot = gfs::find_chunk(rl.wal.open.chunk.chunk_id().0);
    assert!(slot.is_some(), "the chunk that continues the journal has no file");
    let f = &gfs::fs().files[slot.unwrap()];
    assert!(f.exists && f.len == rl.wal.open.chunk.global_end() - rl.wal.open.chunk.global_start(), "leftover bytes between the recovered journal end and the end of the file that continues the journal");
}

fn untouched(slot: usize, len: usize) -> bool {
    let f = &gfs::fs().files[slot];
    f.exists && f.n_set_len == 0 && f.n_write == 0 && f.len == len as u64
}

// ---------------------------------------------------------------- C02

// one chunk: [State(empty), Vote, Append(n=1), Commit]
// @harness name=c02_one_chunk_vac prop=C02 tier=quick timeout=900 fs=512
replay_proof! {
    unwind = 10, crc = off,
    fn c02_one_chunk_vac() {
        let mut m = empty_model();
        let mut im = Img::new(0, 0);
        im.state(None, None, None, None, None);
        let v: Id = kani::any();
        im.vote(v);
        m.do_vote(v);
        let a = any_id();
        let p = P::new(1, kani::any());
        im.append(a, p);
        m.do_append(a, p);
        let c: Id = kani::any();
        im.commit(c);
        m.do_commit(c);
        let end = im.commit_len();
        match open(replay_config(None)) {
            Some(rl) => {
                assert_matches(&rl, &m);
                assert_open_file_consistent(&rl);
                assert_cached(&rl, &m);
                assert!(rl.wal.closed.len() == 0, "a healthy last chunk is reopened for appending");
                assert!(rl.wal.open.chunk.global_end() == end as u64, "journal does not continue at the end of the reopened chunk");
                assert!(untouched(0, end), "clean image modified by open");
                kani::cover!(true, "reopened");
                core::mem::forget(rl);
            }
            None => assert!(false, "open of a cleanly written directory failed"),
        }
    }
}

// one chunk with a truncation, optionally followed by a re-append at the same
// index (any term above the kept entry, in particular lower than the removed one):
// [State(empty), Append a0 (n=0), Append a1 (n=2), TruncateAfter(a0) [, Append b1 (n=1)]]
fn one_chunk_truncate(reappend: bool) {
    let mut m = empty_model();
    let mut im = Img::new(0, 0);
    im.state(None, None, None, None, None);
    let a0 = any_id();
    let p0 = P::new(0, 0);
    im.append(a0, p0);
    m.do_append(a0, p0);
    let a1 = any_id();
    kani::assume(m.append_ok(a1));
    let p1 = P::new(2, kani::any());
    im.append(a1, p1);
    m.do_append(a1, p1);
    im.truncate_after(Some(a0));
    m.do_truncate(Some(a0));
    let b1 = any_id();
    if reappend {
        kani::assume(m.append_ok(b1));
        let q1 = P::new(1, kani::any());
        im.append(b1, q1);
        m.do_append(b1, q1);
    }
    let end = im.commit_len();
    match open(replay_config(None)) {
        Some(rl) => {
            assert_matches(&rl, &m);
            assert_cached(&rl, &m);
            assert!(untouched(0, end), "clean image modified by open");
            kani::cover!(!reappend || b1.0 < a1.0, "truncated; a re-appended entry may have a lower term than the removed one");
            core::mem::forget(rl);
        }
        None => assert!(false, "open of a cleanly written directory failed"),
    }
}

// @harness name=c02_one_chunk_truncate prop=C02 tier=quick timeout=1200 fs=512
replay_proof! { unwind = 10, crc = off, fn c02_one_chunk_truncate() { one_chunk_truncate(false); } }
// @harness name=c02_one_chunk_truncate_reappend prop=C02 tier=thorough timeout=2400 fs=512
replay_proof! { unwind = 10, crc = off, fn c02_one_chunk_truncate_reappend() { one_chunk_truncate(true); } }

// [State(empty), Append a0 (n=1), Append a1 (n=0), Purge(a0)]
// @harness name=c02_one_chunk_purge prop=C02 tier=quick timeout=1200 fs=512
replay_proof! {
    unwind = 10, crc = off,
    fn c02_one_chunk_purge() {
        let mut m = empty_model();
        let mut im = Img::new(0, 0);
        im.state(None, None, None, None, None);
        let a0 = any_id();
        let p0 = P::new(1, kani::any());
        im.append(a0, p0);
        m.do_append(a0, p0);
        let a1 = any_id();
        kani::assume(m.append_ok(a1));
        let p1 = P::new(0, 0);
        im.append(a1, p1);
        m.do_append(a1, p1);
        im.purge(a0);
        m.do_purge(a0);
        let end = im.commit_len();
        match open(replay_config(None)) {
            Some(rl) => {
                assert_matches(&rl, &m);
                assert_cached(&rl, &m);
                assert!(untouched(0, end), "clean image modified by open");
                kani::cover!(m.n == 1 && m.purged == Some(a0), "one live entry above the purge point");
                core::mem::forget(rl);
            }
            None => assert!(false, "open of a cleanly written directory failed"),
        }
    }
}

// the oldest retained chunk starts at a non-zero offset with a non-empty state
// snapshot (older chunks were purged away): the snapshot replaces the state
// @harness name=c02_state_head prop=C02 tier=quick timeout=900 fs=512
replay_proof! {
    unwind = 10, crc = off,
    fn c02_state_head() {
        let mut m = empty_model();
        let pg = any_id();
        m.vote = Some(kani::any());
        m.committed = Some(kani::any());
        m.purged = Some(pg);
        m.last = Some(pg);
        m.user_data = Some(kani::any());
        let base: u64 = 1000;
        let mut im = Img::new(0, base);
        im.state(m.vote, m.last, m.committed, m.purged, m.user_data);
        let a = any_id();
        kani::assume(m.append_ok(a));
        let p = P::new(3, kani::any());
        im.append(a, p);
        m.do_append(a, p);
        let end = im.commit_len();
        match open(replay_config(None)) {
            Some(rl) => {
                assert_matches(&rl, &m);
                assert_cached(&rl, &m);
                assert!(rl.wal.open.chunk.global_start() == base && rl.wal.open.chunk.global_end() == base + end as u64);
                assert!(untouched(0, end));
                kani::cover!(true, "reopened from a state snapshot");
                core::mem::forget(rl);
            }
            None => assert!(false, "open of a cleanly written directory failed"),
        }
    }
}

// the newest (and only) chunk holds nothing but its head snapshot - the store
// was closed right after a rotation whose older chunks have been purged away:
// the snapshot IS the state
// @harness name=c02_head_only prop=C02 tier=quick timeout=900 fs=512
replay_proof! {
    unwind = 10, crc = off,
    fn c02_head_only() {
        let mut m = empty_model();
        let pg = any_id();
        m.vote = Some(kani::any());
        m.committed = Some(kani::any());
        m.purged = Some(pg);
        m.last = Some(pg);
        m.user_data = None;
        let mut im = Img::new(0, 500);
        im.state(m.vote, m.last, m.committed, m.purged, None);
        let end = im.commit_len();
        match open(replay_config(None)) {
            Some(rl) => {
                assert_matches(&rl, &m);
                assert!(rl.wal.open.chunk.global_start() == 500 && rl.wal.open.chunk.global_end() == 500 + end as u64, "the chunk holding the snapshot is not the one that continues the journal");
                assert!(untouched(0, end), "clean image modified by open");
                kani::cover!(true, "reopened from a head-only chunk");
                core::mem::forget(rl);
            }
            None => assert!(false, "open of a cleanly written directory failed"),
        }
    }
}

// a state snapshot in the middle of a chunk (save_user_data journals the whole
// state) after an append: the entry stays pinned, user data is replayed
// @harness name=c02_mid_chunk_state prop=C02 tier=quick timeout=900 fs=512
replay_proof! {
    unwind = 10, crc = off,
    fn c02_mid_chunk_state() {
        let mut m = empty_model();
        let mut im = Img::new(0, 0);
        im.state(None, None, None, None, None);
        let a0 = any_id();
        let p0 = P::new(1, kani::any());
        im.append(a0, p0);
        m.do_append(a0, p0);
        let u: u8 = kani::any();
        im.state(None, Some(a0), None, None, Some(u));
        m.user_data = Some(u);
        let end = im.commit_len();
        match open(replay_config(None)) {
            Some(rl) => {
                assert_matches(&rl, &m);
                assert_open_pinned(&rl);
                assert_cached(&rl, &m);
                assert!(untouched(0, end), "clean image modified by open");
                kani::cover!(true, "reopened with a mid-chunk state record");
                core::mem::forget(rl);
            }
            None => assert!(false, "open of a cleanly written directory failed"),
        }
    }
}

/// two chunks: [State(empty), Append a0 (1), Append a1 (0)] [State(last = a1), Commit c, Append a2 (2)]
fn two_chunks(m: &mut Model) -> (usize, usize) {
    let mut im = Img::new(0, 0);
    im.state(None, None, None, None, None);
    let a0 = any_id();
    let p0 = P::new(1, kani::any());
    im.append(a0, p0);
    m.do_append(a0, p0);
    let a1 = any_id();
    kani::assume(m.append_ok(a1));
    let p1 = P::new(0, 0);
    im.append(a1, p1);
    m.do_append(a1, p1);
    let end0 = im.commit_len();
    let mut im = Img::new(1, end0 as u64);
    im.state(None, Some(a1), None, None, None);
    let c: Id = kani::any();
    im.commit(c);
    m.do_commit(c);
    let a2 = any_id();
    kani::assume(m.append_ok(a2));
    let p2 = P::new(2, kani::any());
    im.append(a2, p2);
    m.do_append(a2, p2);
    let end1 = im.commit_len();
    (end0, end1)
}

// @harness name=c02_two_chunks prop=C02 tier=quick timeout=1500 fs=512
replay_proof! {
    unwind = 10, crc = off,
    fn c02_two_chunks() {
        let mut m = empty_model();
        let (end0, end1) = two_chunks(&mut m);
        match open(replay_config(None)) {
            Some(rl) => {
                assert_matches(&rl, &m);
                assert_open_file_consistent(&rl);
                assert_open_pinned(&rl);
                assert_cached(&rl, &m);
                assert!(rl.wal.closed.len() == 1 && rl.wal.open.chunk.global_start() == end0 as u64, "chunks not chained");
                assert!(rl.wal.open.chunk.global_end() == (end0 + end1) as u64);
                assert!(rl.on_disk_size() == (end0 + end1) as u64, "on_disk_size is not the span of the retained chunks");
                assert!(untouched(0, end0) && untouched(1, end1), "clean image modified by open");
                kani::cover!(true, "two chunks reopened");
                core::mem::forget(rl);
            }
            None => assert!(false, "open of a cleanly written directory failed"),
        }
    }
}

// NOT encoded: reading an entry of a closed chunk back from its file after the
// restart (`read` on a cache miss -> `RaftLogWAL::load_log_payload` ->
// `Chunk::read_record`). Through `read` with a one-item cache it did not fit
// in 12 GB (the cache lookup is symbolic behind Arc<RwLock>); calling
// `load_log_payload` directly the record's segment read back from the index is
// not a constant, the pread buffer gets a symbolic length and the decoder is
// walked for every record kind (no result in 15 min).

// after a restart the store continues with the same semantics: one more
// append, compared with the model, journalled right after the replayed bytes
// @harness name=c02_reopen_then_append prop=C02 tier=quick timeout=1500 fs=512
replay_proof! {
    unwind = 10, crc = off,
    fn c02_reopen_then_append() {
        let mut m = empty_model();
        let mut im = Img::new(0, 0);
        im.state(None, None, None, None, None);
        let a0 = any_id();
        let p0 = P::new(1, kani::any());
        im.append(a0, p0);
        m.do_append(a0, p0);
        let end = im.commit_len();
        match open(replay_config(None)) {
            Some(mut rl) => {
                let id = any_id();
                let p = P::new(2, kani::any());
                let r = rl.append([(id, PR::new(p.n, p.b))]);
                match r {
                    Ok(seg) => {
                        assert!(m.append_ok(id), "append after restart accepted although the reference log refuses it");
                        m.do_append(id, p);
                        assert!(seg.offset().0 == end as u64, "first record after restart is not journalled at the end of the replayed bytes");
                        assert_matches(&rl, &m);
                        assert_read(&rl, &m, 0, 255);
                        kani::cover!(true, "append after restart");
                    }
                    Err(e) => {
                        core::mem::forget(e);
                        assert!(!m.append_ok(id), "append after restart refused although the reference log accepts it");
                        assert_matches(&rl, &m);
                        kani::cover!(true, "refused append after restart");
                    }
                }
                core::mem::forget(rl);
            }
            None => assert!(false, "open of a cleanly written directory failed"),
        }
    }
}

// ---------------------------------------------------------------- C03 / C05 / C10: crash images

/// [State(empty), Append a0 (1), Commit c] cut `k` bytes into the Commit record
fn torn_tail(k: usize, then_write: u8) {
    let mut m = empty_model();
    let mut im = Img::new(0, 0);
    im.state(None, None, None, None, None);
    let a0 = any_id();
    let p0 = P::new(1, kani::any());
    let e1 = im.append(a0, p0);
    m.do_append(a0, p0);
    let c: Id = kani::any();
    let e2 = im.commit(c);
    im.commit_len();
    let cut = if k == 0 { e2 - 1 } else { e1 + k };
    gfs::fs().files[0].len = cut as u64;
    match open(replay_config(None)) {
        Some(mut rl) => {
            // exactly the complete records: the commit is not visible
            assert_matches(&rl, &m);
            assert_cached(&rl, &m);
            let f = &gfs::fs().files[0];
            assert!(f.len == e1 as u64 && f.n_set_len == 1 && f.synced_len == f.len, "torn tail not cut away durably");
            // the damaged chunk stays closed; a fresh chunk continues right at the cut
            assert!(rl.wal.closed.len() == 1, "a truncated chunk must not be reused for appending");
            assert!(rl.wal.open.chunk.global_start() == e1 as u64, "new chunk does not start at the recovered end");
            assert!(gfs::find_chunk(e1 as u64).is_some(), "no file created for the new chunk");
            assert_open_file_consistent(&rl);
            kani::cover!(true, "recovered from a torn tail");
            if then_write == 1 {
                let v: Id = kani::any();
                kani::assume(m.vote_ok(v));
                let r = rl.save_vote(v);
                match r {
                    Ok(seg) => assert!(seg.offset().0 > e1 as u64 && rl.wal.open.chunk.global_end() == seg.offset().0 + *seg.size(), "vote after recovery not journalled at the end of the fresh chunk"),
                    Err(e) => { core::mem::forget(e); assert!(false, "store unusable after recovery"); }
                }
                m.do_vote(v);
                assert_matches(&rl, &m);
                kani::cover!(true, "vote after recovery");
            }
            if then_write == 2 {
                let id = any_id();
                kani::assume(m.append_ok(id));
                let p = P::new(1, kani::any());
                let ok = is_ok(rl.append([(id, PR::new(p.n, p.b))]));
                assert!(ok, "store unusable after recovery");
                m.do_append(id, p);
                assert_matches(&rl, &m);
                assert_cached(&rl, &m);
                kani::cover!(true, "append after recovery");
            }
            core::mem::forget(rl);
        }
        None => assert!(false, "open failed on a crash image with a torn tail"),
    }
}

// @harness name=c05_torn_tail_first_byte prop=C05 tier=quick timeout=1200 fs=512 allow_unsat=vote,append
replay_proof! { unwind = 10, crc = off, fn c05_torn_tail_first_byte() { torn_tail(1, 0); } }
// @harness name=c05_torn_tail_mid prop=C05 tier=thorough timeout=1200 fs=512 allow_unsat=vote,append
replay_proof! { unwind = 10, crc = off, fn c05_torn_tail_mid() { torn_tail(6, 0); } }
// @harness name=c05_torn_tail_last_byte_vote prop=C05 tier=thorough timeout=2400 fs=512 allow_unsat=append
replay_proof! { unwind = 10, crc = off, fn c05_torn_tail_last_byte_vote() { torn_tail(0, 1); } }
// @harness name=c05_torn_tail_last_byte_append prop=C05 tier=thorough timeout=3000 fs=512 allow_unsat=vote
replay_proof! { unwind = 10, crc = off, fn c05_torn_tail_last_byte_append() { torn_tail(0, 2); } }

// two chunks, the newest torn inside its second record (its head snapshot is complete)
// @harness name=c05_torn_second_chunk prop=C05 tier=quick timeout=1500 fs=512
replay_proof! {
    unwind = 10, crc = off,
    fn c05_torn_second_chunk() {
        let mut m = empty_model();
        let mut im = Img::new(0, 0);
        im.state(None, None, None, None, None);
        let a0 = any_id();
        let p0 = P::new(1, kani::any());
        im.append(a0, p0);
        m.do_append(a0, p0);
        let end0 = im.commit_len();
        let mut im = Img::new(1, end0 as u64);
        let h = im.state(None, Some(a0), None, None, None);
        let v: Id = kani::any();
        im.vote(v);
        im.commit_len();
        gfs::fs().files[1].len = (h + 7) as u64;
        match open(replay_config(None)) {
            Some(rl) => {
                assert_matches(&rl, &m);
                assert!(untouched(0, end0), "an older chunk was modified by recovery");
                let f = &gfs::fs().files[1];
                assert!(f.len == h as u64 && f.n_set_len == 1);
                assert!(rl.wal.closed.len() == 2 && rl.wal.open.chunk.global_start() == (end0 + h) as u64);
                kani::cover!(true, "recovered: newest of two chunks torn");
                core::mem::forget(rl);
            }
            None => assert!(false, "open failed on a crash image with a torn tail"),
        }
    }
}

// truncation disabled: the same crash image is refused and nothing is touched
// @harness name=c10_torn_tail_refused prop=C10 tier=quick timeout=1200 fs=512
replay_proof! {
    unwind = 10, crc = off,
    fn c10_torn_tail_refused() {
        let mut im = Img::new(0, 0);
        im.state(None, None, None, None, None);
        let e1 = im.append(any_id(), P::new(1, kani::any()));
        im.commit(kani::any());
        im.commit_len();
        let cut = e1 + 5;
        gfs::fs().files[0].len = cut as u64;
        match open(replay_config(Some(false))) {
            Some(rl) => {
                core::mem::forget(rl);
                assert!(false, "torn tail accepted although truncation is disabled");
            }
            None => {
                assert!(untouched(0, cut), "refused open modified the chunk file");
                assert!(gfs::find_chunk(e1 as u64).is_none(), "refused open created a chunk file");
                kani::cover!(true, "refused, directory untouched");
            }
        }
    }
}

// The newest chunk file holds no complete record (crash between creating the
// file and writing its head snapshot, or inside that write). Before /repo
// 5a57fa8 `Chunk::open` cut it back to zero records and `Chunk::last_segment`
// indexed `offsets[len - 2]`: open panicked (found by these harnesses:
// "attempt to subtract with overflow" in last_segment). Now the file is
// discarded and the previous chunk is the last one.
fn empty_newest(len1: usize) {
    let mut m = empty_model();
    let mut im = Img::new(0, 0);
    im.state(None, None, None, None, None);
    let a0 = any_id();
    let p0 = P::new(1, kani::any());
    im.append(a0, p0);
    m.do_append(a0, p0);
    let end0 = im.commit_len();
    let mut im = Img::new(1, end0 as u64);
    im.state(None, Some(a0), None, None, None);
    im.commit_len();
    gfs::fs().files[1].len = len1 as u64;
    match open(replay_config(None)) {
        Some(rl) => {
            assert_matches(&rl, &m);
                assert_open_file_consistent(&rl);
            assert_open_pinned(&rl);
            assert_cached(&rl, &m);
            assert!(untouched(0, end0), "an older chunk was modified by recovery");
            assert!(rl.wal.closed.len() == 0 && rl.wal.open.chunk.global_end() == end0 as u64, "the previous chunk is not the one that continues the journal");
            assert!(!gfs::fs().files[1].exists, "the empty chunk file is still in the directory (the next rotation would collide with it)");
            kani::cover!(true, "recovered: newest chunk without a complete record");
            core::mem::forget(rl);
        }
        None => assert!(false, "open failed on a crash image whose newest chunk has no complete record"),
    }
}

// @harness name=c05_empty_newest prop=C05 tier=quick timeout=1200 fs=512
replay_proof! { unwind = 10, crc = off, fn c05_empty_newest() { empty_newest(0); } }
// @harness name=c05_partial_head prop=C05 tier=quick timeout=1200 fs=512
replay_proof! { unwind = 10, crc = off, fn c05_partial_head() { empty_newest(9); } }

// the only chunk file of a fresh directory was cut inside its head record
// @harness name=c05_partial_first_chunk prop=C05 tier=quick timeout=1200 fs=512
replay_proof! {
    unwind = 10, crc = off,
    fn c05_partial_first_chunk() {
        let m = empty_model();
        let mut im = Img::new(0, 0);
        im.state(None, None, None, None, None);
        im.commit_len();
        gfs::fs().files[0].len = 7;
        match open(replay_config(None)) {
            Some(rl) => {
                assert_matches(&rl, &m);
                assert!(rl.wal.closed.len() == 0 && rl.wal.open.chunk.global_start() == 0);
                kani::cover!(true, "fresh store after a crash during the very first open");
                core::mem::forget(rl);
            }
            None => assert!(false, "open failed on a crash image of the very first open"),
        }
    }
}

// KNOWN FINDING KF-C05-rotation-gap: rotation creates the new chunk file and
// writes its head snapshot on the caller's thread before the old chunk's last
// bytes have even been queued for the worker; a crash there leaves the old
// chunk shorter than the new chunk's name says, and open refuses the gap.
// @harness name=c05_known_rotation_gap prop=C05 tier=quick timeout=1200 fs=512 kind=known
replay_proof! {
    unwind = 10, crc = off,
    fn c05_known_rotation_gap() {
        let mut im = Img::new(0, 0);
        im.state(None, None, None, None, None);
        let a0 = any_id();
        let e1 = im.append(a0, P::new(1, kani::any()));
        let v: Id = kani::any();
        let e2 = im.vote(v);
        im.commit_len();
        // the vote record (the old chunk's tail) never reached the file
        gfs::fs().files[0].len = e1 as u64;
        let mut im = Img::new(1, e2 as u64);
        im.state(Some(v), Some(a0), None, None, None);
        im.commit_len();
        let r = open(replay_config(None));
        kani::cover!(r.is_none(), "open refused");
        assert!(r.is_some(), "open refuses a crash image left by an interrupted chunk rotation");
        core::mem::forget(r);
    }
}

// ---------------------------------------------------------------- C09: missing pieces

// a chunk file in the middle of the journal is missing: open fails and leaves
// every file as it was. (The gap size is part of the shape: a chunk id is a
// file name, and a symbolic id makes the ghost directory lookup - and with it
// every file access - symbolic.)
fn missing_middle<const GAP: u64>() {
    let mut im = Img::new(0, 0);
    im.state(None, None, None, None, None);
    let a0 = any_id();
    im.append(a0, P::new(1, kani::any()));
    let end0 = im.commit_len();
    let mut im = Img::new(1, end0 as u64 + GAP);
    im.state(None, Some(a0), None, None, None);
    im.commit(kani::any());
    let end1 = im.commit_len();
    match open(replay_config(None)) {
        Some(rl) => {
            core::mem::forget(rl);
            assert!(false, "open succeeded although a chunk in the middle of the journal is missing");
        }
        None => {
            assert!(untouched(0, end0) && untouched(1, end1), "refused open modified a chunk file");
            kani::cover!(true, "gap reported");
        }
    }
}

// @harness name=c09_missing_middle_chunk prop=C09 tier=quick timeout=1500 fs=512
replay_proof! { unwind = 10, crc = off, fn c09_missing_middle_chunk() { missing_middle::<1>(); } }
// @harness name=c09_missing_middle_chunk_far prop=C09 tier=thorough timeout=1500 fs=512
replay_proof! { unwind = 10, crc = off, fn c09_missing_middle_chunk_far() { missing_middle::<70000>(); } }

// KNOWN FINDING KF-C09-nonnewest-truncated: an incomplete tail in a chunk that
// is not the newest is cut away (`set_len`) before the gap check of the next
// chunk refuses the open: the refused open has modified an older chunk file.
// @harness name=c09_known_nonnewest_truncated prop=C09 tier=quick timeout=1500 fs=512 kind=known
replay_proof! {
    unwind = 10, crc = off,
    fn c09_known_nonnewest_truncated() {
        let mut im = Img::new(0, 0);
        im.state(None, None, None, None, None);
        let a0 = any_id();
        let e1 = im.append(a0, P::new(1, kani::any()));
        let v: Id = kani::any();
        let e2 = im.vote(v);
        im.commit_len();
        // the older chunk lost the last 3 bytes of its last record
        let cut = e2 - 3;
        gfs::fs().files[0].len = cut as u64;
        let mut im = Img::new(1, e2 as u64);
        im.state(Some(v), Some(a0), None, None, None);
        let end1 = im.commit_len();
        match open(replay_config(None)) {
            Some(rl) => {
                core::mem::forget(rl);
                assert!(false, "open succeeded although an older chunk lost part of a record");
            }
            None => {
                kani::cover!(true, "open refused");
                assert!(untouched(1, end1));
                assert!(untouched(0, cut), "a refused open cut bytes off a chunk that is not the newest");
            }
        }
        let _ = e1;
    }
}

// ---------------------------------------------------------------- C03: the recovered state is a prefix

/// [State(empty), Append a0 (1), Append a1 (0), <last>] with <last> torn `cut`
/// bytes in: the recovered store is exactly the store after the three complete
/// records - the torn purge / truncation / commit / vote has no effect at all.
fn prefix_only(last: u8, cut: usize) {
    let mut m = empty_model();
    let mut im = Img::new(0, 0);
    im.state(None, None, None, None, None);
    let a0 = any_id();
    let p0 = P::new(1, kani::any());
    im.append(a0, p0);
    m.do_append(a0, p0);
    let a1 = any_id();
    kani::assume(m.append_ok(a1));
    let p1 = P::new(0, 0);
    let e2 = im.append(a1, p1);
    m.do_append(a1, p1);
    let x: Id = kani::any();
    let e3 = match last {
        0 => im.vote(x),
        2 => im.commit(x),
        3 => im.truncate_after(Some(a0)),
        _ => im.purge(a0),
    };
    im.commit_len();
    assert!(e2 + cut < e3);
    gfs::fs().files[0].len = (e2 + cut) as u64;
    match open(replay_config(None)) {
        Some(rl) => {
            assert_matches(&rl, &m);
            assert_cached(&rl, &m);
            assert!(gfs::fs().files[0].len == e2 as u64, "file not cut back to the complete prefix");
            kani::cover!(true, "prefix recovered");
            core::mem::forget(rl);
        }
        None => assert!(false, "open failed on a crash image with a torn tail"),
    }
}

// @harness name=c03_torn_purge prop=C03 tier=quick timeout=1500 fs=512
replay_proof! { unwind = 10, crc = off, fn c03_torn_purge() { prefix_only(4, 13); } }
// @harness name=c03_torn_truncate prop=C03 tier=quick timeout=1500 fs=512
replay_proof! { unwind = 10, crc = off, fn c03_torn_truncate() { prefix_only(3, 7); } }
// @harness name=c03_torn_commit prop=C03 tier=quick timeout=1500 fs=512
replay_proof! { unwind = 10, crc = off, fn c03_torn_commit() { prefix_only(2, 6); } }
// @harness name=c03_torn_vote prop=C03 tier=thorough timeout=1500 fs=512
replay_proof! { unwind = 10, crc = off, fn c03_torn_vote() { prefix_only(0, 5); } }

// nothing torn: every complete record is replayed, including a purge and a
// truncation as the last record (no complete record is dropped by recovery)
// @harness name=c03_complete_purge_last prop=C03 tier=quick timeout=1500 fs=512
replay_proof! {
    unwind = 10, crc = off,
    fn c03_complete_purge_last() {
        let mut m = empty_model();
        let mut im = Img::new(0, 0);
        im.state(None, None, None, None, None);
        let a0 = any_id();
        let p0 = P::new(1, kani::any());
        im.append(a0, p0);
        m.do_append(a0, p0);
        im.purge(a0);
        m.do_purge(a0);
        let end = im.commit_len();
        match open(replay_config(None)) {
            Some(rl) => {
                assert_matches(&rl, &m);
                assert!(untouched(0, end));
                kani::cover!(m.n == 0 && m.purged == Some(a0), "the final purge is replayed");
                core::mem::forget(rl);
            }
            None => assert!(false, "open of a cleanly written directory failed"),
        }
    }
}

// ---------------------------------------------------------------- C02 / C07: the eviction boundary is a log id

// KNOWN FINDING KF-C02-id-boundary: while the newest chunk is replayed the
// eviction boundary is the last log id of the previous chunk - an *id*. If the
// newest chunk truncates the log and re-appends at a lower term (a new leader),
// its own entries compare below that boundary: after the restart they are
// evictable although they live in the open chunk, and once evicted (small
// cache) they cannot be read ("Chunk not found"). Two chunks:
// [State(empty), Append a1] [State(last = a1), TruncateAfter(None), Append b1] with b1 < a1.
// @harness name=c02_known_lower_term_boundary prop=C02 tier=quick timeout=1500 fs=512 kind=known
replay_proof! {
    unwind = 10, crc = off,
    fn c02_known_lower_term_boundary() {
        // smallest instance: [State(empty), Append a1] [State(last = a1), TruncateAfter(None), Append b1]
        let mut m = empty_model();
        let mut im = Img::new(0, 0);
        im.state(None, None, None, None, None);
        let a1 = any_id();
        let p1 = P::new(0, 0);
        im.append(a1, p1);
        m.do_append(a1, p1);
        let end0 = im.commit_len();
        let mut im = Img::new(1, end0 as u64);
        im.state(None, Some(a1), None, None, None);
        im.truncate_after(None);
        m.do_truncate(None);
        let b1 = any_id();
        kani::assume(m.append_ok(b1));
        let q1 = P::new(1, kani::any());
        im.append(b1, q1);
        m.do_append(b1, q1);
        im.commit_len();
        match open(replay_config(None)) {
            Some(rl) => {
                kani::cover!(b1 < a1, "re-appended entry has a lower id than the last entry of the closed chunk");
                assert_open_pinned(&rl);
                core::mem::forget(rl);
            }
            None => assert!(false, "open of a cleanly written directory failed"),
        }
    }
}

// Whatever the configuration: IF a crash image with a torn tail is opened,
// the file that continues the journal ends exactly where the journal says it
// ends - otherwise the next (acknowledged) writes land behind leftover bytes
// and are misread or lost at the following restart. With truncation disabled
// the image is refused (C10); this harness states the C03 obligation that
// must hold should it ever be accepted.
// @harness name=c03_accepted_image_has_no_leftover prop=C03 tier=quick timeout=1200 fs=512 allow_unsat=accepted
replay_proof! {
    unwind = 10, crc = off,
    fn c03_accepted_image_has_no_leftover() {
        let mut im = Img::new(0, 0);
        im.state(None, None, None, None, None);
        let e1 = im.append(any_id(), P::new(1, kani::any()));
        im.commit(kani::any());
        im.commit_len();
        gfs::fs().files[0].len = (e1 + 5) as u64;
        match open(replay_config(Some(false))) {
            Some(rl) => {
                kani::cover!(true, "accepted");
                assert_open_file_consistent(&rl);
                core::mem::forget(rl);
            }
            None => {
                kani::cover!(true, "refused");
            }
        }
    }
}

// the newest chunk holds its head snapshot (non-empty, at a non-zero offset:
// older chunks were purged away) followed by a torn record: the snapshot is
// the only durable copy of the acknowledged state and must survive recovery
// @harness name=c03_head_only_torn prop=C03 tier=quick timeout=1200 fs=512
replay_proof! {
    unwind = 10, crc = off,
    fn c03_head_only_torn() {
        let mut m = empty_model();
        let pg = any_id();
        m.vote = Some(kani::any());
        m.committed = Some(kani::any());
        m.purged = Some(pg);
        m.last = Some(pg);
        let mut im = Img::new(0, 500);
        let e0 = im.state(m.vote, m.last, m.committed, m.purged, None);
        im.append(any_id(), P::new(1, kani::any()));
        im.commit_len();
        gfs::fs().files[0].len = (e0 + 6) as u64;
        match open(replay_config(None)) {
            Some(rl) => {
                assert_matches(&rl, &m);
                assert!(gfs::fs().files[0].exists && gfs::fs().files[0].len == e0 as u64, "the chunk holding the only copy of the state was not kept");
                kani::cover!(true, "state snapshot survives a torn first record");
                core::mem::forget(rl);
            }
            None => assert!(false, "open failed on a crash image with a torn tail"),
        }
    }
}

// the FIRST record after a chunk head is torn: the chunk keeps only its head
// snapshot, it is cut back, stays closed, and a fresh chunk continues exactly
// at its end (reusing it would append behind the file's stale cursor)
// @harness name=c05_torn_first_record prop=C05 tier=quick timeout=1200 fs=512
replay_proof! {
    unwind = 10, crc = off,
    fn c05_torn_first_record() {
        let m = empty_model();
        let mut im = Img::new(0, 0);
        let e0 = im.state(None, None, None, None, None);
        im.append(any_id(), P::new(1, kani::any()));
        im.commit_len();
        gfs::fs().files[0].len = (e0 + 9) as u64;
        match open(replay_config(None)) {
            Some(rl) => {
                assert_matches(&rl, &m);
                let f = &gfs::fs().files[0];
                assert!(f.len == e0 as u64 && f.n_set_len == 1, "torn tail not cut away");
                assert!(rl.wal.closed.len() == 1, "a truncated chunk must not be reused for appending");
                assert!(rl.wal.open.chunk.global_start() == e0 as u64, "new chunk does not start at the recovered end");
                assert_open_file_consistent(&rl);
                kani::cover!(true, "recovered: first record after the head torn");
                core::mem::forget(rl);
            }
            None => assert!(false, "open failed on a crash image with a torn tail"),
        }
    }
}

// ---------------------------------------------------------------- C13: refused open and the chunk files

// The directory is owned by somebody else and its newest chunk ends in a torn
// record: `RaftLog::open` must fail on the lock BEFORE it reads, let alone
// repairs, any chunk file (the lock itself is the ghost lock here; the real
// FileLock over an inode-keyed flock table is c13_lock_cycle / c13_open_refused).
// @harness name=c13_refused_open_leaves_chunks prop=C13 tier=quick timeout=1200 fs=512
replay_proof! {
    unwind = 10, crc = off,
    fn c13_refused_open_leaves_chunks() {
        unsafe { crate::file_lock::kani_h_a_lock::LOCK_HELD = true };
        let mut im = Img::new(0, 0);
        im.state(None, None, None, None, None);
        let e1 = im.commit(kani::any());
        im.vote(kani::any());
        im.commit_len();
        let cut = e1 + 5;
        gfs::fs().files[0].len = cut as u64;
        match open(replay_config(None)) {
            Some(rl) => {
                core::mem::forget(rl);
                assert!(false, "open succeeds on a directory that is locked by another owner");
            }
            None => {
                let f = &gfs::fs().files[0];
                assert!(f.n_open == 0, "a refused open read a chunk file before it had the directory lock");
                assert!(untouched(0, cut), "a refused open modified a chunk file");
                kani::cover!(true, "refused before any chunk file was touched");
            }
        }
    }
}

// the same recovery at a non-zero journal offset (older chunks purged away):
// the cut-back length is local to the file, the fresh chunk's name is global
// @harness name=c05_torn_tail_at_offset prop=C05 tier=quick timeout=1200 fs=512
replay_proof! {
    unwind = 10, crc = off,
    fn c05_torn_tail_at_offset() {
        let mut m = empty_model();
        let pg = any_id();
        m.purged = Some(pg);
        m.last = Some(pg);
        let base: u64 = 1000;
        let mut im = Img::new(0, base);
        im.state(None, m.last, None, m.purged, None);
        let a = any_id();
        kani::assume(m.append_ok(a));
        let p = P::new(1, kani::any());
        let e1 = im.append(a, p);
        m.do_append(a, p);
        im.commit(kani::any());
        im.commit_len();
        gfs::fs().files[0].len = (e1 + 4) as u64;
        match open(replay_config(None)) {
            Some(rl) => {
                assert_matches(&rl, &m);
                let f = &gfs::fs().files[0];
                assert!(f.len == e1 as u64 && f.n_set_len == 1, "torn tail not cut back to the file-local end of the last complete record");
                assert!(rl.wal.closed.len() == 1 && rl.wal.open.chunk.global_start() == base + e1 as u64, "fresh chunk is not named by the global offset of the recovered end");
                assert!(gfs::find_chunk(base + e1 as u64).is_some(), "no file created under the global offset of the recovered end");
                assert_open_file_consistent(&rl);
                assert!(rl.on_disk_size() == rl.wal.open.chunk.global_end() - base, "on_disk_size after recovery");
                kani::cover!(true, "recovered at a non-zero offset");
                core::mem::forget(rl);
            }
            None => assert!(false, "open failed on a crash image with a torn tail"),
        }
    }
}
