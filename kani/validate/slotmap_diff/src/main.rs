//! Validation (not a deciding step): the slot-array stand-in behaves like
//! std::collections::BTreeMap on every operation sequence of length <= 6 over
//! keys 0..=4 (at most 4 live entries), for the API subset raft-log uses.
#![allow(dead_code)]
#[path = "../../../support/slotmap.rs"]
mod slotmap;
use std::collections::BTreeMap as Std;
use slotmap::BTreeMap as Slot;

#[derive(Clone, Copy, Debug)]
enum Op { Ins(u8, u8), Rem(u8), PopF, PopL, Split(u8), Clear }

fn obs_std(m: &Std<u8, u8>) -> Vec<(u8, u8)> { m.iter().map(|(k, v)| (*k, *v)).collect() }
fn obs_slot(m: &Slot<u8, u8>) -> Vec<(u8, u8)> { m.iter().map(|(k, v)| (*k, *v)).collect() }

fn check(a: &Std<u8, u8>, b: &Slot<u8, u8>, trace: &[Op]) {
    assert_eq!(obs_std(a), obs_slot(b), "{trace:?}");
    assert_eq!(a.len(), b.len());
    assert_eq!(a.first_key_value().map(|(k, v)| (*k, *v)), b.first_key_value().map(|(k, v)| (*k, *v)));
    assert_eq!(a.iter().last().map(|(k, v)| (*k, *v)), b.iter().last().map(|(k, v)| (*k, *v)));
    assert_eq!(a.values().cloned().collect::<Vec<_>>(), b.values().cloned().collect::<Vec<_>>());
    assert!(b.well_formed());
    for k in 0..=5u8 {
        assert_eq!(a.get(&k), b.get(&k));
        for t in k..=5u8 {
            let x: Vec<_> = a.range(k..t).map(|(k, v)| (*k, *v)).collect();
            let y: Vec<_> = b.range(k..t).map(|(k, v)| (*k, *v)).collect();
            assert_eq!(x, y, "range {k}..{t} {trace:?}");
        }
    }
}

fn run(trace: &mut Vec<Op>, a: Std<u8, u8>, b: Slot<u8, u8>, depth: usize, count: &mut u64) {
    check(&a, &b, trace);
    *count += 1;
    if depth == 0 { return; }
    let mut ops = vec![Op::PopF, Op::PopL, Op::Clear];
    for k in 0..=4u8 { ops.push(Op::Ins(k, depth as u8)); ops.push(Op::Rem(k)); ops.push(Op::Split(k)); }
    for op in ops {
        let (mut a2, mut b2) = (a.clone(), b.clone());
        match op {
            Op::Ins(k, v) => {
                if a2.len() >= 4 && !a2.contains_key(&k) { continue; }
                assert_eq!(a2.insert(k, v), b2.insert(k, v));
            }
            Op::Rem(k) => assert_eq!(a2.remove(&k), b2.remove(&k)),
            Op::PopF => assert_eq!(a2.pop_first(), b2.pop_first()),
            Op::PopL => assert_eq!(a2.pop_last(), b2.pop_last()),
            Op::Split(k) => {
                let x = a2.split_off(&k);
                let y = b2.split_off(&k);
                assert_eq!(obs_std(&x), obs_slot(&y));
                assert!(y.well_formed());
            }
            Op::Clear => { a2.clear(); b2.clear(); }
        }
        trace.push(op);
        run(trace, a2, b2, depth - 1, count);
        trace.pop();
    }
}

fn main() {
    let mut count = 0;
    run(&mut vec![], Std::new(), Slot::new(), 4, &mut count);
    // std's documented panic of range(start > end) is reproduced
    let r = std::panic::catch_unwind(|| { let m: Slot<u8, u8> = Slot::new(); let _ = m.range(3..1).count(); });
    assert!(r.is_err());
    println!("slotmap == std BTreeMap on {count} states (all op sequences of length <= 4 over keys 0..=4)");
}
